// ---- prelude/c05.rs : C05 as a theorem over the proved contracts.
// "is_subtype(a,b) answers yes exactly when every value of a is a value of b" follows from
//   (proved)  is_subtype returns sem_empty(d) for a d with diff_res(a,b,d)     [U4]
//   (proved)  diff_res: d is the exact set difference, for all abstract values  [U1-U4]
//   (ASSUMED, explicit hypotheses below) the three per-kind clause deciders are correct, and the
//             literal domains are rich enough for "a recorded literal subtype is never empty".
// Real values are an uninterpreted sort RV; abs(defs, x) abstracts a real value to the ghost Val
// (tag + literal payload, or the set of atoms of the context's tables it belongs to).
pub ghost struct RV { pub id: int }
pub uninterp spec fn abs(defs: Defs, x: RV) -> Val;

pub open spec fn val_env(v: Val) -> Env {
    match v {
        Val::Mapping(e) => e,
        Val::List(e) => e,
        Val::Map(e) => e,
        Val::Set(e) => e,
        _ => |a: Atom| false,
    }
}
pub open spec fn kind_empty(k: SubTypeTag, b: Bdd, defs: Defs) -> bool {
    match k {
        SubTypeTag::Mapping => mapping_empty(b, defs),
        SubTypeTag::List => list_empty(b, defs),
        SubTypeTag::Map => map_empty(b, defs),
        SubTypeTag::Set => list_empty(b, defs),
        _ => false,
    }
}
pub open spec fn is_struct_kind(k: SubTypeTag) -> bool {
    k == SubTypeTag::Mapping || k == SubTypeTag::List || k == SubTypeTag::Map || k == SubTypeTag::Set
}
// H1: a structured-kind diagram is reported empty exactly when no real value of that kind satisfies it
pub open spec fn deciders_correct(defs: Defs) -> bool {
    forall|k: SubTypeTag, b: Bdd| is_struct_kind(k) ==>
        #[trigger] kind_empty(k, b, defs) == (forall|x: RV| tag_of(#[trigger] abs(defs, x)) == k ==> !eval(b, val_env(abs(defs, x))))
}
// H2: every tag has a real value, and a recorded (non-trivial) literal subtype has a real member.
// (False for the two finite literal kinds when *all* their literals are excluded - TypedArray with the
//  11 kinds, VoidUndefined with both - where the code still answers NotEmpty; see DESIGN.md.)
pub open spec fn domains_rich(defs: Defs) -> bool {
    &&& forall|t: SubTypeTag| exists|x: RV| tag_of(#[trigger] abs(defs, x)) == #[trigger] code_tag(t)
    &&& forall|p: ProperSubtype| !is_struct_kind(ptag(p)) && #[trigger] nontrivial_p(p) ==>
            exists|x: RV| tag_of(#[trigger] abs(defs, x)) == ptag(p) && mem_proper(p, abs(defs, x))
}
pub open spec fn code_tag(t: SubTypeTag) -> SubTypeTag { t }

pub open spec fn struct_bdd(p: ProperSubtype) -> Bdd {
    match p {
        ProperSubtype::Mapping(b) => *b,
        ProperSubtype::List(b) => *b,
        ProperSubtype::Map(b) => *b,
        ProperSubtype::Set(b) => *b,
        _ => Bdd::False,
    }
}

// emptiness of a well-formed type, as decided, is emptiness of its set of real values
pub proof fn lemma_sem_empty_is_no_value(d: SemType, defs: Defs)
    requires wf(d), deciders_correct(defs), domains_rich(defs)
    ensures sem_empty(d, defs) == (forall|x: RV| !mem(d, #[trigger] abs(defs, x)))
{
    let sd = d.subtype_data@;
    if sem_empty(d, defs) {
        assert forall|x: RV| !mem(d, #[trigger] abs(defs, x)) by {
            let v = abs(defs, x);
            lemma_bit_zero(code_of(tag_of(v)));
            if in_seq(sd, v) {
                let i = choose|i: int| 0 <= i < sd.len() && ptag(*#[trigger] sd[i]) == tag_of(v) && mem_proper(*sd[i], v);
                assert(proper_empty(*sd[i], defs));
                lemma_proper_empty_kind(sd[i], defs);
                assert(kind_empty(rtag(sd[i]), struct_bdd(*sd[i]), defs));
                assert(tag_of(abs(defs, x)) == rtag(sd[i]));
                assert(!eval(struct_bdd(*sd[i]), val_env(abs(defs, x))));
            }
        }
    }
    if forall|x: RV| !mem(d, #[trigger] abs(defs, x)) {
        if d.all != 0 {
            lemma_some_tag(d.all);
            let j = choose|j: int| 0 <= j < 13 && bit(d.all, code_of(#[trigger] all_tags()[j]));
            let t = all_tags()[j];
            assert(code_tag(t) == t);
            let x = choose|x: RV| tag_of(#[trigger] abs(defs, x)) == code_tag(t);
            assert(mem(d, abs(defs, x)));
        }
        assert forall|i: int| 0 <= i < sd.len() implies proper_empty(*#[trigger] sd[i], defs) by {
            let p = sd[i];
            if !is_struct_kind(rtag(p)) {
                assert(nontrivial_p(*p));
                let x = choose|x: RV| tag_of(#[trigger] abs(defs, x)) == rtag(p) && rmem(p, abs(defs, x));
                assert(rtag(sd[i]) == tag_of(abs(defs, x)) && rmem(sd[i], abs(defs, x)));
                assert(in_seq(sd, abs(defs, x)));
                assert(mem(d, abs(defs, x)));
            } else {
                lemma_proper_empty_kind(p, defs);
                assert forall|x: RV| tag_of(#[trigger] abs(defs, x)) == rtag(p) implies !eval(struct_bdd(*p), val_env(abs(defs, x))) by {
                    if eval(struct_bdd(*p), val_env(abs(defs, x))) {
                        lemma_struct_mem(p, abs(defs, x));
                        assert(rtag(sd[i]) == tag_of(abs(defs, x)) && rmem(sd[i], abs(defs, x)));
                        assert(in_seq(sd, abs(defs, x)));
                        assert(mem(d, abs(defs, x)));
                    }
                }
                assert(kind_empty(rtag(p), struct_bdd(*p), defs));
            }
        }
    }
}
proof fn lemma_proper_empty_kind(p: Rc<ProperSubtype>, defs: Defs)
    ensures proper_empty(*p, defs) == (is_struct_kind(rtag(p)) && kind_empty(rtag(p), struct_bdd(*p), defs))
{}
proof fn lemma_struct_mem(p: Rc<ProperSubtype>, v: Val)
    requires is_struct_kind(rtag(p)), tag_of(v) == rtag(p)
    ensures rmem(p, v) == eval(struct_bdd(*p), val_env(v))
{}

// C05, the reduction: the answer of is_subtype / is_same_type is inclusion / equality of real value sets
pub proof fn lemma_c05_subtype_is_inclusion(a: SemType, b: SemType, d: SemType, defs: Defs)
    requires wf(a), wf(b), flat(a), flat(b), diff_res(a, b, d), deciders_correct(defs), domains_rich(defs)
    ensures sem_empty(d, defs) == (forall|x: RV| mem(a, #[trigger] abs(defs, x)) ==> mem(b, abs(defs, x)))
{
    lemma_sem_empty_is_no_value(d, defs);
    if forall|x: RV| !mem(d, #[trigger] abs(defs, x)) {
        assert forall|x: RV| mem(a, #[trigger] abs(defs, x)) implies mem(b, abs(defs, x)) by {
            assert(!mem(d, abs(defs, x)));
        }
    }
    if forall|x: RV| mem(a, #[trigger] abs(defs, x)) ==> mem(b, abs(defs, x)) {
        assert forall|x: RV| !mem(d, #[trigger] abs(defs, x)) by {
            assert(mem(d, abs(defs, x)) == (mem(a, abs(defs, x)) && !mem(b, abs(defs, x))));
        }
    }
}
