// ---- prelude/access.rs : indexed access on lists (bdd.rs:779-952): safety only
// ---- value-level reading of the walk over a list diagram (C07): a value belongs to the member type of the
// diagram at the keys iff it belongs to `accum` and some root-to-True path has it in the member type of every atom
// the path takes positively (negative atoms are ignored: the member type is an upper bound by design)
pub open spec fn not_marker(v: Val) -> bool { tag_of(v) != SubTypeTag::OptionalProp }
spec fn atom_member(defs: Defs, a: Atom, key: ListNumberKey, v: Val) -> bool {
    member_at(lt_of(defs, a).prefix_items@, *lt_of(defs, a).items, key, v) && not_marker(v)
}
spec fn proj_mem(defs: Defs, b: Bdd, key: ListNumberKey, v: Val) -> bool
    decreases b
{
    match b {
        Bdd::True => true,
        Bdd::False => false,
        Bdd::Node { atom, left, middle, right } =>
            (atom_member(defs, atom, key, v) && proj_mem(defs, *left, key, v)) || proj_mem(defs, *middle, key, v) || proj_mem(defs, *right, key, v),
    }
}
pub open spec fn lt_wf(lt: ListAtomic) -> bool { items_wf(lt.prefix_items@, *lt.items) && items_in_val(lt.prefix_items@, *lt.items) }
// the item types of every atom of the diagram are well-formed and format-free
pub open spec fn bdd_latoms_wf(defs: Defs, b: Bdd) -> bool
    decreases b
{
    match b {
        Bdd::True => true,
        Bdd::False => true,
        Bdd::Node { atom, left, middle, right } =>
            lt_wf(lt_of(defs, atom)) && bdd_latoms_wf(defs, *left) && bdd_latoms_wf(defs, *middle) && bdd_latoms_wf(defs, *right),
    }
}
// every atom of the diagram is a list or Set atom defined in the context's tables
pub open spec fn bdd_latoms_ok(defs: Defs, b: Bdd) -> bool
    decreases b
{
    match b {
        Bdd::True => true,
        Bdd::False => true,
        Bdd::Node { atom, left, middle, right } =>
            latom_ok(defs, atom) && bdd_latoms_ok(defs, *left) && bdd_latoms_ok(defs, *middle) && bdd_latoms_ok(defs, *right),
    }
}
pub open spec fn list_parts_ok(defs: Defs, t: SemType) -> bool {
    forall|i: int| 0 <= i < t.subtype_data@.len() ==> match *#[trigger] t.subtype_data@[i] {
        ProperSubtype::List(b) => bdd_latoms_ok(defs, *b),
        _ => true,
    }
}

// ---- the top of `list_indexed_access`: how the key set is read off the index type and the list part off the
// object type
// T2: derived Clone on N returns an equal value
pub assume_specification[ <N as Clone>::clone ](x: &N) -> (r: N) ensures r == *x;
pub open spec fn lits_upto(values: Seq<NumberRepresentationOrFormat>, k: int) -> Seq<N>
    decreases k
{
    if k <= 0 || k > values.len() { Seq::empty() } else {
        match values[k - 1] {
            NumberRepresentationOrFormat::Lit(n) => lits_upto(values, k - 1).push(n),
            NumberRepresentationOrFormat::Format(_) => lits_upto(values, k - 1),
        }
    }
}
pub broadcast proof fn lemma_lits_step(values: Seq<NumberRepresentationOrFormat>, k: int)
    requires 0 <= k < values.len()
    ensures #[trigger] lits_upto(values, k + 1) == (match values[k] {
        NumberRepresentationOrFormat::Lit(n) => lits_upto(values, k).push(n),
        NumberRepresentationOrFormat::Format(_) => lits_upto(values, k),
    })
{}
pub open spec fn has_number_part(idx: SemType) -> bool {
    bit(idx.all, 4u32) || exists|i: int| 0 <= i < idx.subtype_data@.len() && ptag(*#[trigger] idx.subtype_data@[i]) == SubTypeTag::Number
}
// `key` is the key set the number part of the index type stands for: every number, or the listed / excluded literals
pub closed spec fn key_for(idx: SemType, key: ListNumberKey) -> bool {
    if bit(idx.all, 4u32) { key is True } else {
        exists|i: int| 0 <= i < idx.subtype_data@.len() && (match *#[trigger] idx.subtype_data@[i] {
            ProperSubtype::Number { allowed, values } => (match key {
                ListNumberKey::N { allowed: a2, values: v2 } => a2 == allowed && v2@ == lits_upto(values@, values@.len() as int),
                ListNumberKey::True => false,
            }),
            _ => false,
        })
    }
}
pub open spec fn no_list_part(obj: SemType) -> bool {
    !bit(obj.all, 128u32) && forall|i: int| 0 <= i < obj.subtype_data@.len() ==> ptag(*#[trigger] obj.subtype_data@[i]) != SubTypeTag::List
}
pub open spec fn list_part(obj: SemType, b: Bdd) -> bool {
    !bit(obj.all, 128u32) && exists|i: int| 0 <= i < obj.subtype_data@.len() && (match *#[trigger] obj.subtype_data@[i] {
        ProperSubtype::List(bb) => *bb == b,
        _ => false,
    })
}
pub open spec fn list_parts_wf(defs: Defs, t: SemType) -> bool {
    forall|i: int| 0 <= i < t.subtype_data@.len() ==> match *#[trigger] t.subtype_data@[i] {
        ProperSubtype::List(b) => bdd_latoms_wf(defs, *b),
        _ => true,
    }
}
// what `T[K]` is on the list part of T: nothing without a number part in K or a list part in T; otherwise the member
// type of T's list diagram at the key set K stands for
pub closed spec fn list_access_spec(defs: Defs, obj: SemType, key: ListNumberKey, r: SemType) -> bool {
    if no_list_part(obj) { forall|v: Val| !#[trigger] mem(r, v) }
    else { exists|b: Bdd| #[trigger] list_part(obj, b) && forall|v: Val| #[trigger] mem(r, v) == proj_mem(defs, b, key, v) }
}

// ---- objects / Maps
pub uninterp spec fn mapping_tbl_defined(defs: Defs, i: usize) -> bool;
pub uninterp spec fn map_tbl_defined(defs: Defs, i: usize) -> bool;
pub uninterp spec fn mapping_tbl(defs: Defs, i: usize) -> MappingAtomicType;
pub uninterp spec fn map_tbl(defs: Defs, i: usize) -> MappingAtomicType;
impl SemTypeContext {
    #[verifier::external_body]
    pub fn get_mapping_atomic(&self, idx: usize) -> (r: Rc<MappingAtomicType>)
        requires mapping_tbl_defined(ctx_defs(*self), idx)
        ensures *r == mapping_tbl(ctx_defs(*self), idx)
    { unimplemented!() }
    #[verifier::external_body]
    pub fn get_map_atomic(&self, idx: usize) -> (r: Rc<MappingAtomicType>)
        requires map_tbl_defined(ctx_defs(*self), idx)
        ensures *r == map_tbl(ctx_defs(*self), idx)
    { unimplemented!() }
}
pub open spec fn matom_ok(defs: Defs, a: Atom) -> bool {
    match a {
        Atom::Mapping(i) => mapping_tbl_defined(defs, i),
        Atom::Map(i) => map_tbl_defined(defs, i),
        _ => false,
    }
}
pub open spec fn bdd_matoms_ok(defs: Defs, b: Bdd) -> bool
    decreases b
{
    match b {
        Bdd::True => true,
        Bdd::False => true,
        Bdd::Node { atom, left, middle, right } =>
            matom_ok(defs, atom) && bdd_matoms_ok(defs, *left) && bdd_matoms_ok(defs, *middle) && bdd_matoms_ok(defs, *right),
    }
}
// T2: the key type is the real definition (outside verus!); its derived Clone returns an equal value
#[verifier::external_type_specification]
struct ExMappingStrKey(MappingStrKey);
pub assume_specification[ <MappingStrKey as Clone>::clone ](x: &MappingStrKey) -> (r: MappingStrKey)
    ensures r == *x;
// R5 (contract-only, ASSUMED; bounded stand-in: families mapidx / idx): the component types of an object atom that
// a string key set selects. It iterates a BTreeMap and uses a let-chain with else-less `if` over iterator adapters.
// Modelled as an uninterpreted function of the atom and the key set; the types it returns are component types of
// the atom, hence as well-formed as the atom.
spec fn applicable(atomic: MappingAtomicType, key: MappingStrKey) -> Seq<Rc<SemType>>;
pub uninterp spec fn matom_wf(atomic: MappingAtomicType) -> bool;
#[verifier::external_body]
fn mapping_atomic_applicable_member_types_inner(atomic: Rc<MappingAtomicType>, key: MappingStrKey) -> (r: Result<Vec<Rc<SemType>>>)
    ensures r is Ok ==> r->Ok_0@ == applicable(*atomic, key),
            matom_wf(*atomic) ==> r is Ok && forall|i: int| 0 <= i < r->Ok_0@.len() ==> swf(#[trigger] r->Ok_0@[i]) && sin_val(r->Ok_0@[i]),
{ unimplemented!() }
// value-level reading of the walk over an object diagram, as for lists
spec fn matom_member(defs: Defs, a: Atom, key: MappingStrKey, v: Val) -> bool {
    any_upto(applicable(mt_of(defs, a), key), applicable(mt_of(defs, a), key).len() as int, v)
}
pub open spec fn mt_of(defs: Defs, a: Atom) -> MappingAtomicType {
    match a {
        Atom::Mapping(i) => mapping_tbl(defs, i),
        Atom::Map(i) => map_tbl(defs, i),
        _ => arbitrary(),
    }
}
spec fn mproj_mem(defs: Defs, b: Bdd, key: MappingStrKey, v: Val) -> bool
    decreases b
{
    match b {
        Bdd::True => true,
        Bdd::False => false,
        Bdd::Node { atom, left, middle, right } =>
            (matom_member(defs, atom, key, v) && mproj_mem(defs, *left, key, v)) || mproj_mem(defs, *middle, key, v) || mproj_mem(defs, *right, key, v),
    }
}
pub open spec fn bdd_matoms_wf(defs: Defs, b: Bdd) -> bool
    decreases b
{
    match b {
        Bdd::True => true,
        Bdd::False => true,
        Bdd::Node { atom, left, middle, right } =>
            matom_wf(mt_of(defs, atom)) && bdd_matoms_wf(defs, *left) && bdd_matoms_wf(defs, *middle) && bdd_matoms_wf(defs, *right),
    }
}
