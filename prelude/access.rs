// ---- prelude/access.rs : indexed access on lists (bdd.rs:779-952): safety only
// R5 (contract-only): uses `.iter().enumerate()` and f64 -> i64 casts
#[verifier::external_body]
fn list_atomic_member_type_at_inner(prefix_items: &[Rc<SemType>], items: &Rc<SemType>, key: ListNumberKey) -> (r: Result<Rc<SemType>>)
    ensures sts_ok(prefix_items@) && st_ok(*items) ==> (r is Ok ==> st_ok(r->Ok_0))
{ unimplemented!() }

// every atom of the diagram is a list or Set atom defined in the context's tables
pub open spec fn bdd_latoms_ok(defs: Defs, b: Bdd) -> bool
    decreases b
{
    match b {
        Bdd::True => true,
        Bdd::False => true,
        Bdd::Node { atom, left, middle, right } =>
            latom_ok(defs, atom) && bdd_latoms_ok(defs, *left) && bdd_latoms_ok(defs, *middle) && bdd_latoms_ok(defs, *right),
    }
}
pub open spec fn list_parts_ok(defs: Defs, t: SemType) -> bool {
    forall|i: int| 0 <= i < t.subtype_data@.len() ==> match *#[trigger] t.subtype_data@[i] {
        ProperSubtype::List(b) => bdd_latoms_ok(defs, *b),
        _ => true,
    }
}

// ---- objects / Maps
pub uninterp spec fn mapping_tbl_defined(defs: Defs, i: usize) -> bool;
pub uninterp spec fn map_tbl_defined(defs: Defs, i: usize) -> bool;
pub uninterp spec fn mapping_tbl(defs: Defs, i: usize) -> MappingAtomicType;
pub uninterp spec fn map_tbl(defs: Defs, i: usize) -> MappingAtomicType;
impl SemTypeContext {
    #[verifier::external_body]
    pub fn get_mapping_atomic(&self, idx: usize) -> (r: Rc<MappingAtomicType>)
        requires mapping_tbl_defined(ctx_defs(*self), idx)
        ensures *r == mapping_tbl(ctx_defs(*self), idx)
    { unimplemented!() }
    #[verifier::external_body]
    pub fn get_map_atomic(&self, idx: usize) -> (r: Rc<MappingAtomicType>)
        requires map_tbl_defined(ctx_defs(*self), idx)
        ensures *r == map_tbl(ctx_defs(*self), idx)
    { unimplemented!() }
}
pub open spec fn matom_ok(defs: Defs, a: Atom) -> bool {
    match a {
        Atom::Mapping(i) => mapping_tbl_defined(defs, i),
        Atom::Map(i) => map_tbl_defined(defs, i),
        _ => false,
    }
}
pub open spec fn bdd_matoms_ok(defs: Defs, b: Bdd) -> bool
    decreases b
{
    match b {
        Bdd::True => true,
        Bdd::False => true,
        Bdd::Node { atom, left, middle, right } =>
            matom_ok(defs, atom) && bdd_matoms_ok(defs, *left) && bdd_matoms_ok(defs, *middle) && bdd_matoms_ok(defs, *right),
    }
}
// R5 (contract-only): iterates a BTreeMap and uses a let-chain with else-less `if` over iterator adapters
#[verifier::external_body]
fn mapping_member_type_inner(atomic: Rc<MappingAtomicType>, key: MappingStrKey) -> (r: Result<Rc<SemType>>)
{ unimplemented!() }
