// ---- prelude/access.rs : indexed access on lists (bdd.rs:779-952): safety only
// ---- value-level reading of the walk over a list diagram (C07): a value belongs to the member type of the
// diagram at the keys iff it belongs to `accum` and some root-to-True path has it in the member type of every atom
// the path takes positively (negative atoms are ignored: the member type is an upper bound by design)
pub open spec fn not_marker(v: Val) -> bool { tag_of(v) != SubTypeTag::OptionalProp }
spec fn atom_member(defs: Defs, a: Atom, key: ListNumberKey, v: Val) -> bool {
    member_at(lt_of(defs, a).prefix_items@, *lt_of(defs, a).items, key, v) && not_marker(v)
}
spec fn proj_mem(defs: Defs, b: Bdd, key: ListNumberKey, v: Val) -> bool
    decreases b
{
    match b {
        Bdd::True => true,
        Bdd::False => false,
        Bdd::Node { atom, left, middle, right } =>
            (atom_member(defs, atom, key, v) && proj_mem(defs, *left, key, v)) || proj_mem(defs, *middle, key, v) || proj_mem(defs, *right, key, v),
    }
}
pub open spec fn lt_wf(lt: ListAtomic) -> bool { items_wf(lt.prefix_items@, *lt.items) && items_in_val(lt.prefix_items@, *lt.items) }
// the item types of every atom of the diagram are well-formed and format-free
pub open spec fn bdd_latoms_wf(defs: Defs, b: Bdd) -> bool
    decreases b
{
    match b {
        Bdd::True => true,
        Bdd::False => true,
        Bdd::Node { atom, left, middle, right } =>
            lt_wf(lt_of(defs, atom)) && bdd_latoms_wf(defs, *left) && bdd_latoms_wf(defs, *middle) && bdd_latoms_wf(defs, *right),
    }
}
// every atom of the diagram is a list or Set atom defined in the context's tables
pub open spec fn bdd_latoms_ok(defs: Defs, b: Bdd) -> bool
    decreases b
{
    match b {
        Bdd::True => true,
        Bdd::False => true,
        Bdd::Node { atom, left, middle, right } =>
            latom_ok(defs, atom) && bdd_latoms_ok(defs, *left) && bdd_latoms_ok(defs, *middle) && bdd_latoms_ok(defs, *right),
    }
}
pub open spec fn list_parts_ok(defs: Defs, t: SemType) -> bool {
    forall|i: int| 0 <= i < t.subtype_data@.len() ==> match *#[trigger] t.subtype_data@[i] {
        ProperSubtype::List(b) => bdd_latoms_ok(defs, *b),
        _ => true,
    }
}

// ---- the top of `list_indexed_access`: how the key set is read off the index type and the list part off the
// object type
// T2: derived Clone on N returns an equal value
pub assume_specification[ <N as Clone>::clone ](x: &N) -> (r: N) ensures r == *x;
pub open spec fn lits_upto(values: Seq<NumberRepresentationOrFormat>, k: int) -> Seq<N>
    decreases k
{
    if k <= 0 || k > values.len() { Seq::empty() } else {
        match values[k - 1] {
            NumberRepresentationOrFormat::Lit(n) => lits_upto(values, k - 1).push(n),
            NumberRepresentationOrFormat::Format(_) => lits_upto(values, k - 1),
        }
    }
}
pub broadcast proof fn lemma_lits_step(values: Seq<NumberRepresentationOrFormat>, k: int)
    requires 0 <= k < values.len()
    ensures #[trigger] lits_upto(values, k + 1) == (match values[k] {
        NumberRepresentationOrFormat::Lit(n) => lits_upto(values, k).push(n),
        NumberRepresentationOrFormat::Format(_) => lits_upto(values, k),
    })
{}
pub open spec fn has_number_part(idx: SemType) -> bool {
    bit(idx.all, 4u32) || exists|i: int| 0 <= i < idx.subtype_data@.len() && ptag(*#[trigger] idx.subtype_data@[i]) == SubTypeTag::Number
}
// `key` is the key set the number part of the index type stands for: every number, or the listed / excluded literals
pub closed spec fn key_for(idx: SemType, key: ListNumberKey) -> bool {
    if bit(idx.all, 4u32) { key is True } else {
        exists|i: int| 0 <= i < idx.subtype_data@.len() && (match *#[trigger] idx.subtype_data@[i] {
            ProperSubtype::Number { allowed, values } => (match key {
                ListNumberKey::N { allowed: a2, values: v2 } => a2 == allowed && v2@ == lits_upto(values@, values@.len() as int),
                ListNumberKey::True => false,
            }),
            _ => false,
        })
    }
}
pub open spec fn no_list_part(obj: SemType) -> bool {
    !bit(obj.all, 128u32) && forall|i: int| 0 <= i < obj.subtype_data@.len() ==> ptag(*#[trigger] obj.subtype_data@[i]) != SubTypeTag::List
}
pub open spec fn list_part(obj: SemType, b: Bdd) -> bool {
    !bit(obj.all, 128u32) && exists|i: int| 0 <= i < obj.subtype_data@.len() && (match *#[trigger] obj.subtype_data@[i] {
        ProperSubtype::List(bb) => *bb == b,
        _ => false,
    })
}
pub open spec fn list_parts_wf(defs: Defs, t: SemType) -> bool {
    forall|i: int| 0 <= i < t.subtype_data@.len() ==> match *#[trigger] t.subtype_data@[i] {
        ProperSubtype::List(b) => bdd_latoms_wf(defs, *b),
        _ => true,
    }
}
// what `T[K]` is on the list part of T: nothing without a number part in K or a list part in T; otherwise the member
// type of T's list diagram at the key set K stands for
pub closed spec fn list_access_spec(defs: Defs, obj: SemType, key: ListNumberKey, r: SemType) -> bool {
    if no_list_part(obj) { forall|v: Val| !#[trigger] mem(r, v) }
    else { exists|b: Bdd| #[trigger] list_part(obj, b) && forall|v: Val| #[trigger] mem(r, v) == proj_mem(defs, b, key, v) }
}

// ---- objects / Maps
pub uninterp spec fn mapping_tbl_defined(defs: Defs, i: usize) -> bool;
pub uninterp spec fn map_tbl_defined(defs: Defs, i: usize) -> bool;
pub uninterp spec fn mapping_tbl(defs: Defs, i: usize) -> MappingAtomicType;
pub uninterp spec fn map_tbl(defs: Defs, i: usize) -> MappingAtomicType;
impl SemTypeContext {
    #[verifier::external_body]
    pub fn get_mapping_atomic(&self, idx: usize) -> (r: Rc<MappingAtomicType>)
        requires mapping_tbl_defined(ctx_defs(*self), idx)
        ensures *r == mapping_tbl(ctx_defs(*self), idx)
    { unimplemented!() }
    #[verifier::external_body]
    pub fn get_map_atomic(&self, idx: usize) -> (r: Rc<MappingAtomicType>)
        requires map_tbl_defined(ctx_defs(*self), idx)
        ensures *r == map_tbl(ctx_defs(*self), idx)
    { unimplemented!() }
}
pub open spec fn matom_ok(defs: Defs, a: Atom) -> bool {
    match a {
        Atom::Mapping(i) => mapping_tbl_defined(defs, i),
        Atom::Map(i) => map_tbl_defined(defs, i),
        _ => false,
    }
}
pub open spec fn bdd_matoms_ok(defs: Defs, b: Bdd) -> bool
    decreases b
{
    match b {
        Bdd::True => true,
        Bdd::False => true,
        Bdd::Node { atom, left, middle, right } =>
            matom_ok(defs, atom) && bdd_matoms_ok(defs, *left) && bdd_matoms_ok(defs, *middle) && bdd_matoms_ok(defs, *right),
    }
}
// T2: the key type is the real definition (outside verus!); its derived Clone returns an equal value
#[verifier::external_type_specification]
struct ExMappingStrKey(MappingStrKey);
pub assume_specification[ <MappingStrKey as Clone>::clone ](x: &MappingStrKey) -> (r: MappingStrKey)
    ensures r == *x;
// ---- the component types of an object atom that a string key set selects (`mapping_atomic_applicable_member_types_inner`,
// extracted and proved): a declared property takes part when the key set selects its key; the index signature's value
// type takes part when the signature is over all strings and the key set selects a key the atom does not declare
pub open spec fn listed(values: Seq<String>, k: String) -> bool { exists|j: int| 0 <= j < values.len() && #[trigger] values[j] == k }
spec fn key_sel(key: MappingStrKey, k: String) -> bool {
    match key { MappingStrKey::Str { allowed, values } => listed(values@, k) == allowed, MappingStrKey::True => true }
}
pub open spec fn names_undeclared(vs: Map<String, Rc<SemType>>, values: Seq<String>) -> bool {
    exists|j: int| 0 <= j < values.len() && !vs.contains_key(#[trigger] values[j])
}
spec fn sig_sel(atomic: MappingAtomicType, key: MappingStrKey) -> bool {
    match atomic.indexed_properties {
        Some(ip) => ip.key.all == 8u32 && (match key {
            MappingStrKey::Str { allowed, values } => !allowed || names_undeclared(atomic.vs@, values@),
            MappingStrKey::True => true,
        }),
        None => false,
    }
}
spec fn decl_sel_mem(vs: Map<String, Rc<SemType>>, key: MappingStrKey, v: Val) -> bool {
    exists|k: String| #[trigger] vs.contains_key(k) && key_sel(key, k) && smem(vs[k], v)
}
spec fn sel_mem(atomic: MappingAtomicType, key: MappingStrKey, v: Val) -> bool {
    decl_sel_mem(atomic.vs@, key, v) || (sig_sel(atomic, key) && smem(atomic.indexed_properties->0.value, v))
}
pub open spec fn matom_wf(atomic: MappingAtomicType) -> bool {
    &&& forall|k: String| atomic.vs@.contains_key(k) ==> swf(#[trigger] atomic.vs@[k]) && sin_val(atomic.vs@[k])
    &&& match atomic.indexed_properties { Some(ip) => swf(ip.value) && sin_val(ip.value), None => true }
}
// the declared properties among the first n entries of the map's iteration that the key set selects
spec fn decl_upto(s: Seq<(&String, &Rc<SemType>)>, n: int, key: MappingStrKey, v: Val) -> bool {
    exists|j: int| 0 <= j < n && j < s.len() && key_sel(key, *(#[trigger] s[j]).0) && smem(*s[j].1, v)
}
proof fn lemma_decl_upto_step(s: Seq<(&String, &Rc<SemType>)>, n: int, key: MappingStrKey, v: Val)
    requires 0 <= n < s.len()
    ensures decl_upto(s, n + 1, key, v) == (decl_upto(s, n, key, v) || (key_sel(key, *s[n].0) && smem(*s[n].1, v)))
{
    if decl_upto(s, n + 1, key, v) {
        let j = choose|j: int| 0 <= j < n + 1 && j < s.len() && key_sel(key, *(#[trigger] s[j]).0) && smem(*s[j].1, v);
        if j < n { assert(decl_upto(s, n, key, v)); }
    }
    if decl_upto(s, n, key, v) {
        let j = choose|j: int| 0 <= j < n && j < s.len() && key_sel(key, *(#[trigger] s[j]).0) && smem(*s[j].1, v);
        assert(0 <= j < n + 1 && key_sel(key, *s[j].0) && smem(*s[j].1, v));
    }
    if key_sel(key, *s[n].0) && smem(*s[n].1, v) { assert(0 <= n < n + 1 && key_sel(key, *(s[n]).0)); }
}
proof fn lemma_decl_full(s: Seq<(&String, &Rc<SemType>)>, vs: Map<String, Rc<SemType>>, n: int, key: MappingStrKey, v: Val)
    requires kv_seq_ok(s, vs), n == s.len()
    ensures decl_upto(s, n, key, v) == decl_sel_mem(vs, key, v)
{
    if decl_upto(s, n, key, v) {
        let j = choose|j: int| 0 <= j < n && j < s.len() && key_sel(key, *(#[trigger] s[j]).0) && smem(*s[j].1, v);
        assert(vs.contains_key(*s[j].0) && vs[*s[j].0] == *s[j].1);
    }
    if decl_sel_mem(vs, key, v) {
        let k = choose|k: String| #[trigger] vs.contains_key(k) && key_sel(key, k) && smem(vs[k], v);
        let i = choose|i: int| 0 <= i < s.len() && *s[i].0 == k;
        assert(vs[*s[i].0] == *s[i].1);
        assert(key_sel(key, *(s[i]).0) && smem(*s[i].1, v));
    }
}
proof fn lemma_copied_any(vals: Seq<Rc<SemType>>, s: Seq<(&String, &Rc<SemType>)>, key: MappingStrKey, v: Val)
    requires key is True, vals.len() == s.len(), forall|j: int| 0 <= j < s.len() ==> vals[j] == *(#[trigger] s[j]).1
    ensures any_upto(vals, vals.len() as int, v) == decl_upto(s, s.len() as int, key, v)
{
    if any_upto(vals, vals.len() as int, v) {
        let i = choose|i: int| 0 <= i < vals.len() && i < vals.len() && smem(#[trigger] vals[i], v);
        assert(vals[i] == *(s[i]).1);
        assert(key_sel(key, *(s[i]).0) && smem(*s[i].1, v));
    }
    if decl_upto(s, s.len() as int, key, v) {
        let j = choose|j: int| 0 <= j < s.len() && j < s.len() && key_sel(key, *(#[trigger] s[j]).0) && smem(*s[j].1, v);
        assert(vals[j] == *(s[j]).1);
    }
}
pub broadcast proof fn lemma_any_push(p: Seq<Rc<SemType>>, t: Rc<SemType>, n: int, v: Val)
    requires n == p.len() + 1
    ensures #[trigger] any_upto(p.push(t), n, v) == (any_upto(p, p.len() as int, v) || smem(t, v))
{
    let q = p.push(t);
    if any_upto(q, n, v) {
        let i = choose|i: int| 0 <= i < n && i < q.len() && smem(#[trigger] q[i], v);
        if i < p.len() { assert(q[i] == p[i]); assert(any_upto(p, p.len() as int, v)); }
    }
    if any_upto(p, p.len() as int, v) {
        let i = choose|i: int| 0 <= i < p.len() && i < p.len() && smem(#[trigger] p[i], v);
        assert(q[i] == p[i]);
    }
    if smem(t, v) { assert(q[p.len() as int] == t); }
}
// ---- the record route of object indexed access (`bdd_mapped_record_member_type_inner_val`): the index type is not a
// set of string constants; an atom takes part when the index type is a subtype of its index signature's key type.
// That decision is `is_subtype`'s, whose contract names the difference only existentially, so the walk is bounded from
// both sides: by the atoms that are seen to cover the index type, and by those that are not seen not to cover it (the
// two coincide when the emptiness decision is a function of the difference's meaning).
pub open spec fn covers(defs: Defs, idx: SemType, key: SemType) -> bool { exists|d: SemType| #[trigger] diff_res(idx, key, d) && sem_empty(d, defs) }
pub open spec fn seen_not_covering(defs: Defs, idx: SemType, key: SemType) -> bool { exists|d: SemType| #[trigger] diff_res(idx, key, d) && !sem_empty(d, defs) }
pub open spec fn rroute_hi(defs: Defs, b: Bdd, idx: SemType, v: Val) -> bool
    decreases b
{
    match b {
        Bdd::True => true,
        Bdd::False => false,
        Bdd::Node { atom, left, middle, right } => (match mt_of(defs, atom).indexed_properties {
            Some(ip) => covers(defs, idx, *ip.key)
                && ((smem(ip.value, v) && rroute_hi(defs, *left, idx, v)) || rroute_hi(defs, *middle, idx, v) || rroute_hi(defs, *right, idx, v)),
            None => false,
        }),
    }
}
pub open spec fn rroute_lo(defs: Defs, b: Bdd, idx: SemType, v: Val) -> bool
    decreases b
{
    match b {
        Bdd::True => true,
        Bdd::False => false,
        Bdd::Node { atom, left, middle, right } => (match mt_of(defs, atom).indexed_properties {
            Some(ip) => !seen_not_covering(defs, idx, *ip.key)
                && ((smem(ip.value, v) && rroute_lo(defs, *left, idx, v)) || rroute_lo(defs, *middle, idx, v) || rroute_lo(defs, *right, idx, v)),
            None => false,
        }),
    }
}

// ---- the top of `mapping_indexed_access`: how the key set is read off the index type's string part
// R22: the one-element slice pattern
#[verifier::external_body]
pub fn vsingle<T>(v: &Vec<T>) -> (r: Option<&T>)
    ensures match r { Some(x) => v@.len() == 1 && *x == v@[0], None => v@.len() != 1 }
{ match v.as_slice() { [x] => Some(x), _ => None } }
// a string literal type that is one string constant
pub open spec fn is_str_const(x: StringLitOrFormat) -> bool {
    match x {
        StringLitOrFormat::Tpl(t) => t.0@.len() == 1 && (t.0@[0] is StringConst),
        StringLitOrFormat::Format(_) => false,
    }
}
pub open spec fn str_const_of(x: StringLitOrFormat) -> String {
    match x {
        StringLitOrFormat::Tpl(t) => (match t.0@[0] { TplLitTypeItem::StringConst(s) => s, _ => arbitrary() }),
        StringLitOrFormat::Format(_) => arbitrary(),
    }
}
pub open spec fn consts_upto(values: Seq<StringLitOrFormat>, k: int) -> Seq<String>
    decreases k
{
    if k <= 0 || k > values.len() { Seq::empty() } else {
        if is_str_const(values[k - 1]) { consts_upto(values, k - 1).push(str_const_of(values[k - 1])) } else { consts_upto(values, k - 1) }
    }
}
pub broadcast proof fn lemma_consts_step(values: Seq<StringLitOrFormat>, k: int)
    requires 0 <= k < values.len()
    ensures #[trigger] consts_upto(values, k + 1)
        == (if is_str_const(values[k]) { consts_upto(values, k).push(str_const_of(values[k])) } else { consts_upto(values, k) })
{}
pub open spec fn all_consts_upto(values: Seq<StringLitOrFormat>, k: int) -> bool { forall|j: int| 0 <= j < k && j < values.len() ==> is_str_const(#[trigger] values[j]) }
// the key set the string part of the index type stands for: every string; the listed / excluded constants when all
// its literals are single string constants; none that this route can use (then the record route is taken) otherwise
pub closed spec fn str_key_for(idx: SemType, key: Option<MappingStrKey>) -> bool {
    if bit(idx.all, 8u32) { key == Some(MappingStrKey::True) } else {
        (key is None && forall|i: int| 0 <= i < idx.subtype_data@.len() ==> ptag(*#[trigger] idx.subtype_data@[i]) != SubTypeTag::String)
        || exists|i: int| 0 <= i < idx.subtype_data@.len() && (match *#[trigger] idx.subtype_data@[i] {
            ProperSubtype::String { allowed, values } =>
                if all_consts_upto(values@, values@.len() as int) {
                    match key {
                        Some(MappingStrKey::Str { allowed: a2, values: v2 }) => a2 == allowed && v2@ == consts_upto(values@, values@.len() as int),
                        _ => false,
                    }
                } else { key is None },
            _ => false,
        })
    }
}
pub open spec fn no_mapping_part(obj: SemType) -> bool {
    !bit(obj.all, 32u32) && forall|i: int| 0 <= i < obj.subtype_data@.len() ==> ptag(*#[trigger] obj.subtype_data@[i]) != SubTypeTag::Mapping
}
pub open spec fn mapping_part(obj: SemType, b: Bdd) -> bool {
    !bit(obj.all, 32u32) && exists|i: int| 0 <= i < obj.subtype_data@.len() && (match *#[trigger] obj.subtype_data@[i] {
        ProperSubtype::Mapping(bb) => *bb == b,
        _ => false,
    })
}
pub open spec fn mapping_parts_ok(defs: Defs, t: SemType) -> bool {
    forall|i: int| 0 <= i < t.subtype_data@.len() ==> match *#[trigger] t.subtype_data@[i] {
        ProperSubtype::Mapping(b) => bdd_matoms_ok(defs, *b),
        _ => true,
    }
}
pub open spec fn mapping_parts_wf(defs: Defs, t: SemType) -> bool {
    forall|i: int| 0 <= i < t.subtype_data@.len() ==> match *#[trigger] t.subtype_data@[i] {
        ProperSubtype::Mapping(b) => bdd_matoms_wf(defs, *b),
        _ => true,
    }
}
// what `T[K]` is on the object part of T for a key set that the string-key route can use
pub closed spec fn mapping_access_spec(defs: Defs, obj: SemType, idx: SemType, key: Option<MappingStrKey>, r: SemType) -> bool {
    if no_mapping_part(obj) { forall|v: Val| !#[trigger] mem(r, v) }
    else {
        exists|b: Bdd| #[trigger] mapping_part(obj, b) && (match key {
            Some(sk) => forall|v: Val| #[trigger] mem(r, v) == mproj_mem(defs, b, sk, v),
            None => forall|v: Val| (#[trigger] mem(r, v) ==> rroute_hi(defs, b, idx, v)) && (rroute_lo(defs, b, idx, v) ==> mem(r, v)),
        })
    }
}

// value-level reading of the walk over an object diagram, as for lists
spec fn matom_member(defs: Defs, a: Atom, key: MappingStrKey, v: Val) -> bool {
    sel_mem(mt_of(defs, a), key, v)
}
pub open spec fn mt_of(defs: Defs, a: Atom) -> MappingAtomicType {
    match a {
        Atom::Mapping(i) => mapping_tbl(defs, i),
        Atom::Map(i) => map_tbl(defs, i),
        _ => arbitrary(),
    }
}
spec fn mproj_mem(defs: Defs, b: Bdd, key: MappingStrKey, v: Val) -> bool
    decreases b
{
    match b {
        Bdd::True => true,
        Bdd::False => false,
        Bdd::Node { atom, left, middle, right } =>
            (matom_member(defs, atom, key, v) && mproj_mem(defs, *left, key, v)) || mproj_mem(defs, *middle, key, v) || mproj_mem(defs, *right, key, v),
    }
}
pub open spec fn bdd_matoms_wf(defs: Defs, b: Bdd) -> bool
    decreases b
{
    match b {
        Bdd::True => true,
        Bdd::False => true,
        Bdd::Node { atom, left, middle, right } =>
            matom_wf(mt_of(defs, atom)) && bdd_matoms_wf(defs, *left) && bdd_matoms_wf(defs, *middle) && bdd_matoms_wf(defs, *right),
    }
}

// T2: derived structural `PartialEq` on the tag enum
impl vstd::std_specs::cmp::PartialEqSpecImpl for SubTypeTag {
    open spec fn obeys_eq_spec() -> bool { true }
    open spec fn eq_spec(&self, other: &SubTypeTag) -> bool { *self == *other }
}
pub assume_specification[ <SubTypeTag as PartialEq>::eq ](a: &SubTypeTag, b: &SubTypeTag) -> (r: bool)
    ensures r == (*a == *b);
// ---- `SemTypeContext::indexed_access`: T[K] = (T's list part)[K] | (T's object part)[K] | string when a string is
// indexed by a number
pub open spec fn some_part(t: SemType, tag: SubTypeTag) -> bool { exists|i: int| 0 <= i < t.subtype_data@.len() && ptag(*#[trigger] t.subtype_data@[i]) == tag }
// what the code calls "is a subtype of string / number": the whole tag is there, or nothing whole is and a part of that tag is
pub open spec fn strlike(t: SemType) -> bool { bit(t.all, 8u32) || (t.all == 0 && some_part(t, SubTypeTag::String)) }
pub open spec fn numlike(t: SemType) -> bool { bit(t.all, 4u32) || (t.all == 0 && some_part(t, SubTypeTag::Number)) }
// the postconditions of the two tops, as predicates of their result
pub closed spec fn list_top(defs: Defs, obj: SemType, idx: SemType, lr: SemType) -> bool {
    &&& !has_number_part(idx) ==> forall|v: Val| !#[trigger] mem(lr, v)
    &&& has_number_part(idx) && list_parts_wf(defs, obj) ==> exists|key: ListNumberKey| #[trigger] key_for(idx, key) && (key_ok(key) ==> list_access_spec(defs, obj, key, lr))
}
pub closed spec fn map_top(defs: Defs, obj: SemType, idx: SemType, mr: SemType) -> bool {
    &&& no_mapping_part(obj) ==> forall|v: Val| !#[trigger] mem(mr, v)
    &&& !no_mapping_part(obj) && mapping_parts_wf(defs, obj) ==> exists|key: Option<MappingStrKey>| #[trigger] str_key_for(idx, key) && mapping_access_spec(defs, obj, idx, key, mr)
}
