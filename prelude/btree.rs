// ---- prelude/btree.rs : what the units that iterate a `BTreeMap<String, _>` share
// T2: String's Ord is a lawful total order (what vstd's BTreeMap specifications ask of the key type)
#[verifier::external_body]
pub proof fn axiom_string_cmp()
    ensures vstd::laws_cmp::obeys_cmp_spec::<String>()
{}
// the entries a BTreeMap's iterator yields, against the map's view (what vstd's specification of `iter` gives
// for a lawfully ordered key type)
pub open spec fn kv_seq_ok<K, V>(s: Seq<(&K, &V)>, m: Map<K, V>) -> bool {
    &&& s.len() == m.len()
    &&& s.no_duplicates()
    &&& forall|i: int| 0 <= i < s.len() ==> m.contains_key(*s[i].0) && m[*s[i].0] == *s[i].1
    &&& forall|k: K| m.contains_key(k) ==> exists|i: int| 0 <= i < s.len() && *s[i].0 == k
}
// T2: String's `==` is structural equality (vstd ties `==` on a type to its `eq_spec` only when the type is known to
// obey it, and says nothing about String)
#[verifier::external_body]
pub broadcast proof fn axiom_string_eq(a: String, b: String)
    ensures <String as PartialEqSpec>::obeys_eq_spec(), #[trigger] a.eq_spec(&b) == (a == b)
{}
