// ---- prelude/mapping.rs : the DNF-level reduction of object/Map emptiness (mapping.rs:426-448)
} // verus!  (opaque stand-in, plain Rust)
#[derive(Debug)]
pub struct MappingAtomicType { _opaque: u8 }
verus! {
#[verifier::external_type_specification]
#[verifier::external_body]
pub struct ExMappingAtomicType2(MappingAtomicType);

// R5 (contract-only, ASSUMED): the two per-atom steps of the object decider, `intersect_mapping` (two object atoms
// clash, or meet in one atom) and `check_mapping_empty` (a shape is covered by a list of negative shapes). They are
// NOT verified; they are modelled as functions of their arguments and of the context's atom tables. The two
// per-clause functions above them (`non_empty_map_literals_intersection`, `mapping_atomic_type_is_empty`) are
// extracted and proved against these.
pub uninterp spec fn mt_top() -> MappingAtomicType;
pub uninterp spec fn mt_clash(a: MappingAtomicType, b: MappingAtomicType, defs: Defs) -> bool;
pub uninterp spec fn mt_meet(a: MappingAtomicType, b: MappingAtomicType, defs: Defs) -> MappingAtomicType;
pub uninterp spec fn cme(pos: MappingAtomicType, negs: Seq<MappingAtomicType>, defs: Defs, is_map: bool) -> bool;
pub uninterp spec fn mtbl_defined(defs: Defs, i: usize) -> bool;
pub uninterp spec fn maptbl_defined(defs: Defs, i: usize) -> bool;
pub uninterp spec fn mtbl(defs: Defs, i: usize) -> MappingAtomicType;
pub uninterp spec fn maptbl(defs: Defs, i: usize) -> MappingAtomicType;

impl MappingAtomicType {
    #[verifier::external_body]
    pub fn new() -> (r: MappingAtomicType) ensures r == mt_top() { unimplemented!() }
}
// R5 (contract-only): table lookups; `expect("should exist")` in the real bodies
impl SemTypeContext {
    #[verifier::external_body]
    pub fn get_mapping_atomic(&self, idx: usize) -> (r: Rc<MappingAtomicType>)
        requires mtbl_defined(ctx_defs(*self), idx)
        ensures *r == mtbl(ctx_defs(*self), idx)
    { unimplemented!() }
    #[verifier::external_body]
    pub fn get_map_atomic(&self, idx: usize) -> (r: Rc<MappingAtomicType>)
        requires maptbl_defined(ctx_defs(*self), idx)
        ensures *r == maptbl(ctx_defs(*self), idx)
    { unimplemented!() }
}
#[verifier::external_body]
pub fn intersect_mapping(m1: Rc<MappingAtomicType>, m2: Rc<MappingAtomicType>, ctx: &mut SemTypeContext) -> (r: Result<Option<Rc<MappingAtomicType>>>)
    ensures ctx_defs(*final(ctx)) == ctx_defs(*old(ctx)),
        r is Ok ==> (match r->Ok_0 {
            None => mt_clash(*m1, *m2, ctx_defs(*old(ctx))),
            Some(v) => !mt_clash(*m1, *m2, ctx_defs(*old(ctx))) && *v == mt_meet(*m1, *m2, ctx_defs(*old(ctx))),
        }),
{ unimplemented!() }
pub open spec fn derefs(s: Seq<Rc<MappingAtomicType>>) -> Seq<MappingAtomicType> { s.map_values(|x: Rc<MappingAtomicType>| *x) }
#[verifier::external_body]
fn check_mapping_empty(pos: Rc<MappingAtomicType>, negs: &[Rc<MappingAtomicType>], ctx: &mut SemTypeContext, is_map: bool) -> (r: Result<bool>)
    ensures ctx_defs(*final(ctx)) == ctx_defs(*old(ctx)),
        r is Ok ==> r->Ok_0 == cme(*pos, derefs(negs@), ctx_defs(*old(ctx)), is_map),
{ unimplemented!() }

// the atoms of an object / Map clause: of the right kind and defined in the tables (C04: the `unreachable!()` and
// the two `expect("should exist")` behind the lookups)
pub open spec fn matom_ok(a: Atom, defs: Defs) -> bool {
    match a { Atom::Mapping(i) => mtbl_defined(defs, i), Atom::Map(i) => maptbl_defined(defs, i), _ => false }
}
pub open spec fn matoms_ok(s: Seq<Atom>, defs: Defs) -> bool { forall|i: int| 0 <= i < s.len() ==> matom_ok(#[trigger] s[i], defs) }
// negatives: atoms of another kind are skipped by the code, so only the object / Map ones have to be defined
pub open spec fn natom_ok(a: Atom, defs: Defs) -> bool {
    match a { Atom::Mapping(i) => mtbl_defined(defs, i), Atom::Map(i) => maptbl_defined(defs, i), _ => true }
}
pub open spec fn natoms_ok(s: Seq<Atom>, defs: Defs) -> bool { forall|i: int| 0 <= i < s.len() ==> natom_ok(#[trigger] s[i], defs) }
pub open spec fn mdnf_ok(d: Seq<Conjunction>, defs: Defs) -> bool {
    forall|i: int| 0 <= i < d.len() ==> matoms_ok((#[trigger] d[i]).positive@, defs) && natoms_ok(d[i].negative@, defs)
}
pub open spec fn atom_mt(a: Atom, defs: Defs) -> MappingAtomicType {
    match a { Atom::Mapping(i) => mtbl(defs, i), Atom::Map(i) => maptbl(defs, i), _ => mt_top() }
}
// the positive atoms folded from the left, starting at the empty object type: (clashed, shape so far)
pub open spec fn pos_fold(pos: Seq<Atom>, k: int, defs: Defs) -> (bool, MappingAtomicType)
    decreases k
{
    if k <= 0 || k > pos.len() { (false, mt_top()) } else {
        let p = pos_fold(pos, k - 1, defs);
        if p.0 { p }
        else if mt_clash(p.1, atom_mt(pos[k - 1], defs), defs) { (true, p.1) }
        else { (false, mt_meet(p.1, atom_mt(pos[k - 1], defs), defs)) }
    }
}
pub open spec fn pos_shape_empty(pos: Seq<Atom>, defs: Defs) -> bool { pos_fold(pos, pos.len() as int, defs).0 }
pub open spec fn pos_shape(pos: Seq<Atom>, defs: Defs) -> MappingAtomicType { pos_fold(pos, pos.len() as int, defs).1 }
pub proof fn lemma_pos_fold_clash_stays(pos: Seq<Atom>, k: int, n: int, defs: Defs)
    requires 0 <= k <= n <= pos.len(), pos_fold(pos, k, defs).0
    ensures pos_fold(pos, n, defs).0
    decreases n - k
{
    if k < n { lemma_pos_fold_clash_stays(pos, k, n - 1, defs); }
}
pub proof fn lemma_clash_then_empty(pos: Seq<Atom>, k: int, defs: Defs)
    requires 0 <= k < pos.len(), !pos_fold(pos, k, defs).0
    ensures mt_clash(pos_fold(pos, k, defs).1, atom_mt(pos[k], defs), defs) ==> pos_shape_empty(pos, defs)
{
    if mt_clash(pos_fold(pos, k, defs).1, atom_mt(pos[k], defs), defs) {
        assert(pos_fold(pos, k + 1, defs).0);
        lemma_pos_fold_clash_stays(pos, k + 1, pos.len() as int, defs);
    }
}
pub broadcast proof fn lemma_pos_fold_step(pos: Seq<Atom>, k: int, defs: Defs)
    requires 0 <= k < pos.len()
    ensures #[trigger] pos_fold(pos, k + 1, defs) == ({
        let p = pos_fold(pos, k, defs);
        if p.0 { p }
        else if mt_clash(p.1, atom_mt(pos[k], defs), defs) { (true, p.1) }
        else { (false, mt_meet(p.1, atom_mt(pos[k], defs), defs)) }
    })
{}
// the object / Map atoms among the negatives, in order
pub open spec fn neg_mts(neg: Seq<Atom>, k: int, defs: Defs) -> Seq<MappingAtomicType>
    decreases k
{
    if k <= 0 || k > neg.len() { Seq::empty() } else {
        let s = neg_mts(neg, k - 1, defs);
        match neg[k - 1] {
            Atom::Mapping(i) => s.push(mtbl(defs, i)),
            Atom::Map(i) => s.push(maptbl(defs, i)),
            _ => s,
        }
    }
}
pub broadcast proof fn lemma_neg_mts_step(neg: Seq<Atom>, k: int, defs: Defs)
    requires 0 <= k < neg.len()
    ensures #[trigger] neg_mts(neg, k + 1, defs) == ({
        let s = neg_mts(neg, k, defs);
        match neg[k] {
            Atom::Mapping(i) => s.push(mtbl(defs, i)),
            Atom::Map(i) => s.push(maptbl(defs, i)),
            _ => s,
        }
    })
{}
pub broadcast proof fn lemma_derefs_push(s: Seq<Rc<MappingAtomicType>>, x: Rc<MappingAtomicType>)
    ensures #[trigger] derefs(s.push(x)) == derefs(s).push(*x)
{
    assert(derefs(s.push(x)) =~= derefs(s).push(*x));
}
pub broadcast proof fn lemma_derefs_empty(s: Seq<Rc<MappingAtomicType>>)
    requires s.len() == 0
    ensures #[trigger] derefs(s) == Seq::<MappingAtomicType>::empty()
{
    assert(derefs(s) =~= Seq::<MappingAtomicType>::empty());
}
pub open spec fn neg_covers(shape: MappingAtomicType, neg: Seq<Atom>, defs: Defs, is_map: bool) -> bool {
    cme(shape, neg_mts(neg, neg.len() as int, defs), defs, is_map)
}

// a DNF clause of objects is empty iff its positive atoms clash, or the remaining shape is covered by the negatives
pub open spec fn mclause_empty(c: Conjunction, defs: Defs, is_map: bool) -> bool {
    pos_shape_empty(c.positive@, defs) || neg_covers(pos_shape(c.positive@, defs), c.negative@, defs, is_map)
}
pub open spec fn mdnf_empty_upto(d: Seq<Conjunction>, k: int, defs: Defs, is_map: bool) -> bool {
    forall|i: int| 0 <= i < k && i < d.len() ==> mclause_empty(#[trigger] d[i], defs, is_map)
}

// R13: `acc.iter().all(|x| *x)` as a named function; proved (not assumed) from vstd's spec of Iterator::all
pub fn vall_true(v: &Vec<bool>) -> (r: bool)
    ensures r == (forall|j: int| 0 <= j < v@.len() ==> v@[j])
{
    let mut it = v.iter();
    proof {
        use vstd::std_specs::iter::IteratorSpec;
        assert(it.obeys_prophetic_iter_laws());
        assert(it.remaining().len() == v@.len());
        assert(forall|j: int| 0 <= j < v@.len() ==> *it.remaining()[j] == v@[j]);
    }
    let ghost rem0 = it.remaining();
    let r = it.all(|x: &bool| -> (b: bool) ensures b == *x { *x });
    proof {
        assert(r ==> forall|j: int| 0 <= j < rem0.len() ==> *rem0[j]);
        assert(!r ==> exists|j: int| 0 <= j < rem0.len() && !*rem0[j]);
    }
    r
}
