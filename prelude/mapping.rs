// ---- prelude/mapping.rs : the DNF-level reduction of object/Map emptiness (mapping.rs:426-448)
} // verus!  (opaque stand-in, plain Rust)
#[derive(Debug)]
pub struct MappingAtomicType { _opaque: u8 }
verus! {
#[verifier::external_type_specification]
#[verifier::external_body]
pub struct ExMappingAtomicType2(MappingAtomicType);

// R5 (contract-only, ASSUMED): the two per-clause steps (intersect_mapping / check_mapping_empty are
// NOT verified). They are modelled as functions of the clause and of the context's atom tables.
pub uninterp spec fn pos_shape_empty(pos: Seq<Atom>, defs: Defs) -> bool;
pub uninterp spec fn pos_shape(pos: Seq<Atom>, defs: Defs) -> MappingAtomicType;
pub uninterp spec fn neg_covers(shape: MappingAtomicType, neg: Seq<Atom>, defs: Defs, is_map: bool) -> bool;

#[verifier::external_body]
fn non_empty_map_literals_intersection(pos: &[Atom], ctx: &mut SemTypeContext) -> (r: Result<IntersectionResult>)
    ensures ctx_defs(*final(ctx)) == ctx_defs(*old(ctx)),
        r is Ok ==> (match r->Ok_0 {
            IntersectionResult::Empty => pos_shape_empty(pos@, ctx_defs(*old(ctx))),
            IntersectionResult::Atomic(a) => !pos_shape_empty(pos@, ctx_defs(*old(ctx))) && *a == pos_shape(pos@, ctx_defs(*old(ctx))),
        }),
{ unimplemented!() }
#[verifier::external_body]
fn mapping_atomic_type_is_empty(atom: Rc<MappingAtomicType>, neg: &[Atom], ctx: &mut SemTypeContext, is_map: bool) -> (r: Result<bool>)
    ensures ctx_defs(*final(ctx)) == ctx_defs(*old(ctx)),
        r is Ok ==> r->Ok_0 == neg_covers(*atom, neg@, ctx_defs(*old(ctx)), is_map),
{ unimplemented!() }

// a DNF clause of objects is empty iff its positive atoms clash, or the remaining shape is covered by the negatives
pub open spec fn mclause_empty(c: Conjunction, defs: Defs, is_map: bool) -> bool {
    pos_shape_empty(c.positive@, defs) || neg_covers(pos_shape(c.positive@, defs), c.negative@, defs, is_map)
}
pub open spec fn mdnf_empty_upto(d: Seq<Conjunction>, k: int, defs: Defs, is_map: bool) -> bool {
    forall|i: int| 0 <= i < k && i < d.len() ==> mclause_empty(#[trigger] d[i], defs, is_map)
}

// R13: `acc.iter().all(|x| *x)` as a named function; proved (not assumed) from vstd's spec of Iterator::all
pub fn vall_true(v: &Vec<bool>) -> (r: bool)
    ensures r == (forall|j: int| 0 <= j < v@.len() ==> v@[j])
{
    let mut it = v.iter();
    proof {
        use vstd::std_specs::iter::IteratorSpec;
        assert(it.obeys_prophetic_iter_laws());
        assert(it.remaining().len() == v@.len());
        assert(forall|j: int| 0 <= j < v@.len() ==> *it.remaining()[j] == v@[j]);
    }
    let ghost rem0 = it.remaining();
    let r = it.all(|x: &bool| -> (b: bool) ensures b == *x { *x });
    proof {
        assert(r ==> forall|j: int| 0 <= j < rem0.len() ==> *rem0[j]);
        assert(!r ==> exists|j: int| 0 <= j < rem0.len() && !*rem0[j]);
    }
    r
}
