// ---- prelude/schema.rs : what a materialised Runtype denotes (C07)
// `ListAtomic`, `MappingAtomicType`, `IndexedPropertiesAtomic` are the real definitions (extracted from bdd.rs).
// Runtype (ast/runtype.rs) cannot be imported (BTreeSet<Runtype> inside, hand-written Ord, serde):
// it is an opaque sort with an uninterpreted denotation over real values, and its constructors are
// contract-only (R5): their denotations below are ASSUMED (listed in the trusted base).
} // verus!  (opaque stand-in types, plain Rust)
#[derive(PartialEq, Eq, PartialOrd, Ord, Clone, Debug, Hash)]
pub struct Runtype { _opaque: u8 }
#[derive(Debug, Clone)]
pub struct RuntypeUUID { _opaque: u8 }
verus! {
#[verifier::external_type_specification]
#[verifier::external_body]
pub struct ExRuntype(Runtype);
#[verifier::external_type_specification]
#[verifier::external_body]
pub struct ExRuntypeUUID(RuntypeUUID);
#[verifier::external_type_specification]
pub struct ExRuntypeConst(RuntypeConst);

// T2: the hand-written Eq/Ord on Runtype (which ignore metadata) form a lawful total order; Runtype
// values are considered up to that equality.
#[verifier::external_body]
pub proof fn axiom_runtype_cmp()
    ensures vstd::laws_cmp::obeys_cmp::<Runtype>()
{}

pub uninterp spec fn den(r: Runtype, x: RV) -> bool;

// atom tables of the context
pub uninterp spec fn mapping_defined(ctx: SemTypeContext, i: usize) -> bool;
pub uninterp spec fn list_defined(ctx: SemTypeContext, i: usize) -> bool;
pub uninterp spec fn map_defined(ctx: SemTypeContext, i: usize) -> bool;
pub uninterp spec fn set_defined(ctx: SemTypeContext, i: usize) -> bool;
pub uninterp spec fn mapping_def(ctx: SemTypeContext, i: usize) -> MappingAtomicType;
pub uninterp spec fn list_def(ctx: SemTypeContext, i: usize) -> ListAtomic;
pub uninterp spec fn map_def(ctx: SemTypeContext, i: usize) -> MappingAtomicType;
pub uninterp spec fn set_def(ctx: SemTypeContext, i: usize) -> ListAtomic;
// denotation of an atomic object / Map / list / Set type
// (uninterpreted because the meaning of an atom refers to the meaning of the types of its components at the
//  value's components - a recursion on the *value* that goes through `vabs`/`env_of`; the unfolding equations
//  are the definitional axioms `axiom_lt_den` / `axiom_map_den` below. Object atoms stay uninterpreted.)
pub uninterp spec fn mt_den(ctx: SemTypeContext, mt: MappingAtomicType, is_map: bool, x: RV) -> bool;
pub uninterp spec fn lt_den(ctx: SemTypeContext, lt: ListAtomic, is_set: bool, x: RV) -> bool;

pub open spec fn atom_defined(ctx: SemTypeContext, a: Atom) -> bool {
    match a {
        Atom::Mapping(i) => mapping_defined(ctx, i),
        Atom::List(i) => list_defined(ctx, i),
        Atom::Map(i) => map_defined(ctx, i),
        Atom::Set(i) => set_defined(ctx, i),
    }
}
pub open spec fn atom_holds(ctx: SemTypeContext, a: Atom, x: RV) -> bool {
    match a {
        Atom::Mapping(i) => mt_den(ctx, mapping_def(ctx, i), false, x),
        Atom::List(i) => lt_den(ctx, list_def(ctx, i), false, x),
        Atom::Map(i) => mt_den(ctx, map_def(ctx, i), true, x),
        Atom::Set(i) => lt_den(ctx, set_def(ctx, i), true, x),
    }
}
pub open spec fn env_of(ctx: SemTypeContext, x: RV) -> Env { |a: Atom| atom_holds(ctx, a, x) }

// R5 (contract-only): table lookups; `expect("should exist")` twice in the real bodies
impl SemTypeContext {
    #[verifier::external_body]
    pub fn get_mapping_atomic(&self, idx: usize) -> (r: Rc<MappingAtomicType>)
        requires mapping_defined(*self, idx)
        ensures *r == mapping_def(*self, idx)
    { unimplemented!() }
    #[verifier::external_body]
    pub fn get_map_atomic(&self, idx: usize) -> (r: Rc<MappingAtomicType>)
        requires map_defined(*self, idx)
        ensures *r == map_def(*self, idx)
    { unimplemented!() }
    #[verifier::external_body]
    pub fn get_list_atomic(&self, idx: usize) -> (r: Rc<ListAtomic>)
        requires list_defined(*self, idx)
        ensures *r == list_def(*self, idx)
    { unimplemented!() }
    #[verifier::external_body]
    pub fn get_set_atomic(&self, idx: usize) -> (r: Rc<ListAtomic>)
        requires set_defined(*self, idx)
        ensures *r == set_def(*self, idx)
    { unimplemented!() }
}

// R5: stand-in declarations for the schemer state. The real `SemTypeResolverContext` holds
// `&'a mut SemTypeContext` (Verus has no `&mut` fields); the extracted methods only read through it.
pub struct SemTypeResolverContext<'a>(pub &'a SemTypeContext);
pub struct SchemerContext<'a, 'b> {
    pub ctx: SemTypeResolverContext<'a>,
    pub counter: &'b usize,
}

// R10: `xs.into_iter().collect()` re-collects a collection into a Vec: same elements, and for a Vec
// the same order (std: Vec::into_iter yields front to back, FromIterator for Vec pushes in order)
pub trait VCollect<T> {
    spec fn collected(&self, s: Seq<T>) -> bool;
    fn vcollect(self) -> (r: Vec<T>)
        ensures self.collected(r@);
}
impl<T> VCollect<T> for Vec<T> {
    open spec fn collected(&self, s: Seq<T>) -> bool { s == self@ }
    #[verifier::external_body]
    fn vcollect(self) -> (r: Vec<T>) { self.into_iter().collect() }
}
impl<T> VCollect<T> for BTreeSet<T> {
    open spec fn collected(&self, s: Seq<T>) -> bool { s.to_set() == self@ }
    #[verifier::external_body]
    fn vcollect(self) -> (r: Vec<T>) { self.into_iter().collect() }
}

// R5 (contract-only, ASSUMED denotations) - Runtype constructors used by the materialisation
impl Runtype {
    #[verifier::external_body]
    pub fn any_of(vs: Vec<Runtype>) -> (r: Runtype)
        ensures forall|x: RV| #[trigger] den(r, x) == any_den(vs@, x)
    { unimplemented!() }
    #[verifier::external_body]
    pub fn all_of(vs: Vec<Runtype>) -> (r: Runtype)
        ensures forall|x: RV| #[trigger] den(r, x) == all_den(vs@, x)
    { unimplemented!() }
    #[verifier::external_body]
    pub fn st_not(inner: Box<Runtype>) -> (r: Runtype)
        ensures forall|x: RV| #[trigger] den(r, x) == !den(*inner, x)
    { unimplemented!() }
}

// R5 (contract-only, ASSUMED): the memoising entry point
// `convert_to_schema` through which the atom schemas recurse into component types. Its Ref memo (the cut for
// recursive types) is NOT modelled: the recursive call is assumed to denote the component type - the
// statement proved for `convert_to_schema_no_cache`, used as induction hypothesis one level down.
impl<'a, 'b> SchemerContext<'a, 'b> {
    #[verifier::external_body]
    pub fn convert_to_schema(&mut self, ty: &Rc<SemType>, name: Option<&RuntypeUUID>) -> (r: Result<Runtype>)
        ensures final(self).ctx == old(self).ctx,
            r is Ok && schema_pre(*old(self).ctx.0, **ty) ==> denotes(*old(self).ctx.0, r->Ok_0, **ty)
    { unimplemented!() }
}

// clause vocabulary
pub open spec fn atoms_kind_ok(ctx: SemTypeContext, s: Seq<Atom>, kind: int) -> bool {
    forall|i: int| 0 <= i < s.len() ==> atom_defined(ctx, #[trigger] s[i]) && (match s[i] {
        Atom::Mapping(_) => kind == 0,
        Atom::List(_) => kind == 1,
        Atom::Map(_) => kind == 2,
        Atom::Set(_) => kind == 3,
    })
}
pub open spec fn clause_ok(ctx: SemTypeContext, c: ClauseView, kind: int) -> bool {
    atoms_kind_ok(ctx, c.0, kind) && atoms_kind_ok(ctx, c.1, kind)
}
pub open spec fn clause_holds(ctx: SemTypeContext, c: ClauseView, x: RV) -> bool {
    all_true(c.0, env_of(ctx, x)) && all_false(c.1, env_of(ctx, x))
}

pub open spec fn all_den(s: Seq<Runtype>, x: RV) -> bool { forall|i: int| 0 <= i < s.len() ==> den(#[trigger] s[i], x) }
pub open spec fn any_den(s: Seq<Runtype>, x: RV) -> bool { exists|i: int| 0 <= i < s.len() && den(#[trigger] s[i], x) }
pub broadcast proof fn lemma_all_den_push(s: Seq<Runtype>, m: Runtype, x: RV)
    ensures #[trigger] all_den(s.push(m), x) == (all_den(s, x) && den(m, x))
{
    if all_den(s.push(m), x) {
        assert(s.push(m)[s.len() as int] == m);
        assert forall|i: int| 0 <= i < s.len() implies den(#[trigger] s[i], x) by { assert(s.push(m)[i] == s[i]); }
    }
    if all_den(s, x) && den(m, x) {
        assert forall|i: int| 0 <= i < s.push(m).len() implies den(#[trigger] s.push(m)[i], x) by {
            if i < s.len() { assert(s.push(m)[i] == s[i]); } else { assert(s.push(m)[i] == m); }
        }
    }
}
pub broadcast proof fn lemma_any_den_push(s: Seq<Runtype>, m: Runtype, x: RV)
    ensures #[trigger] any_den(s.push(m), x) == (any_den(s, x) || den(m, x))
{
    if any_den(s.push(m), x) {
        let i = choose|i: int| 0 <= i < s.push(m).len() && den(#[trigger] s.push(m)[i], x);
        if i < s.len() { assert(s.push(m)[i] == s[i]); } else { assert(s.push(m)[i] == m); }
    }
    if any_den(s, x) {
        let i = choose|i: int| 0 <= i < s.len() && den(#[trigger] s[i], x);
        assert(s.push(m)[i] == s[i]);
    }
    if den(m, x) { assert(s.push(m)[s.len() as int] == m); }
}
pub broadcast proof fn lemma_den_empty(x: RV)
    ensures #[trigger] all_den(Seq::<Runtype>::empty(), x), !#[trigger] any_den(Seq::<Runtype>::empty(), x) {}
// quantifying over the elements of a sequence or over its set of elements is the same
pub broadcast proof fn lemma_any_den_as_set(s: Seq<Runtype>, x: RV)
    ensures #[trigger] any_den(s, x) == (exists|m: Runtype| s.to_set().contains(m) && #[trigger] den(m, x))
{
    if any_den(s, x) {
        let i = choose|i: int| 0 <= i < s.len() && den(#[trigger] s[i], x);
        assert(s.contains(s[i]));
        assert(s.to_set().contains(s[i]) && den(s[i], x));
    }
    if exists|m: Runtype| s.to_set().contains(m) && #[trigger] den(m, x) {
        let m = choose|m: Runtype| s.to_set().contains(m) && #[trigger] den(m, x);
        let i = choose|i: int| 0 <= i < s.len() && s[i] == m;
        assert(den(s[i], x));
    }
}
pub open spec fn clause_upto(ctx: SemTypeContext, c: ClauseView, kp: int, kn: int, x: RV) -> bool {
    all_true_upto(c.0, kp, env_of(ctx, x)) && all_false_upto(c.1, kn, env_of(ctx, x))
}

// every atom of a structured-kind diagram is of that kind and defined in the context's tables
pub open spec fn atom_ok(ctx: SemTypeContext, a: Atom, kind: int) -> bool {
    atom_defined(ctx, a) && (match a {
        Atom::Mapping(_) => kind == 0,
        Atom::List(_) => kind == 1,
        Atom::Map(_) => kind == 2,
        Atom::Set(_) => kind == 3,
    })
}
pub open spec fn bdd_atoms_ok(ctx: SemTypeContext, b: Bdd, kind: int) -> bool
    decreases b
{
    match b {
        Bdd::True => true,
        Bdd::False => true,
        Bdd::Node { atom, left, middle, right } =>
            atom_ok(ctx, atom, kind) && bdd_atoms_ok(ctx, *left, kind) && bdd_atoms_ok(ctx, *middle, kind) && bdd_atoms_ok(ctx, *right, kind),
    }
}
pub open spec fn seq_atoms_ok(ctx: SemTypeContext, s: Seq<Atom>, kind: int) -> bool {
    forall|i: int| 0 <= i < s.len() ==> atom_ok(ctx, #[trigger] s[i], kind)
}
pub open spec fn rb(b: Rc<Bdd>) -> Bdd { *b }
pub proof fn lemma_clause_of_atoms(ctx: SemTypeContext, b: Rc<Bdd>, pos: Seq<Atom>, neg: Seq<Atom>, kind: int, c: ClauseView)
    requires bdd_atoms_ok(ctx, rb(b), kind), seq_atoms_ok(ctx, pos, kind), seq_atoms_ok(ctx, neg, kind), clause_of(rb(b), pos, neg, c)
    ensures clause_ok(ctx, c, kind)
    decreases rb(b)
{
    match rb(b) {
        Bdd::True => {
            assert(c == (pos, neg));
            assert(atoms_kind_ok(ctx, pos, kind)) by { assert forall|i: int| 0 <= i < pos.len() implies atom_defined(ctx, #[trigger] pos[i]) by { assert(atom_ok(ctx, pos[i], kind)); } }
            assert(atoms_kind_ok(ctx, neg, kind)) by { assert forall|i: int| 0 <= i < neg.len() implies atom_defined(ctx, #[trigger] neg[i]) by { assert(atom_ok(ctx, neg[i], kind)); } }
        }
        Bdd::False => {}
        Bdd::Node { atom, left, middle, right } => {
            let p2 = pos.push(atom);
            let n2 = neg.push(atom);
            assert(seq_atoms_ok(ctx, p2, kind)) by {
                assert forall|i: int| 0 <= i < p2.len() implies atom_ok(ctx, #[trigger] p2[i], kind) by { if i < pos.len() { assert(p2[i] == pos[i]); } else { assert(p2[i] == atom); } }
            }
            assert(seq_atoms_ok(ctx, n2, kind)) by {
                assert forall|i: int| 0 <= i < n2.len() implies atom_ok(ctx, #[trigger] n2[i], kind) by { if i < neg.len() { assert(n2[i] == neg[i]); } else { assert(n2[i] == atom); } }
            }
            if clause_of(rb(middle), pos, neg, c) { lemma_clause_of_atoms(ctx, middle, pos, neg, kind, c); }
            else if clause_of(rb(left), p2, neg, c) { lemma_clause_of_atoms(ctx, left, p2, neg, kind, c); }
            else { lemma_clause_of_atoms(ctx, right, pos, n2, kind, c); }
        }
    }
}
// what a *_to_schema caller gets: all clauses of the diagram's DNF are well-kinded
pub proof fn lemma_dnf_clauses_ok(ctx: SemTypeContext, b: Rc<Bdd>, kind: int, d: Seq<Conjunction>)
    requires bdd_atoms_ok(ctx, rb(b), kind),
        forall|k: int| 0 <= k < d.len() ==> clause_of(rb(b), Seq::empty(), Seq::empty(), conj_view(#[trigger] d[k]))
    ensures forall|k: int| 0 <= k < d.len() ==> clause_ok(ctx, conj_view(#[trigger] d[k]), kind)
{
    assert forall|k: int| 0 <= k < d.len() implies clause_ok(ctx, conj_view(#[trigger] d[k]), kind) by {
        lemma_clause_of_atoms(ctx, b, Seq::empty(), Seq::empty(), kind, conj_view(d[k]));
    }
}

// ---------------------------------------------------------------- real values and their abstraction
pub uninterp spec fn rv_tag(x: RV) -> SubTypeTag;
pub uninterp spec fn rv_bool(x: RV) -> bool;
pub uninterp spec fn rv_num(x: RV) -> NumberRepresentationOrFormat;
pub uninterp spec fn rv_str(x: RV) -> StringLitOrFormat;
pub uninterp spec fn rv_ta(x: RV) -> TypedArrayKind;
pub uninterp spec fn rv_vu(x: RV) -> VoidUndefinedSubtype;
// components of a structured value: elements of a list / Set, entries (key, value) of a Map
pub uninterp spec fn rv_len(x: RV) -> nat;
pub uninterp spec fn rv_at(x: RV, i: int) -> RV;
pub uninterp spec fn rv_key(x: RV, i: int) -> RV;
// own properties of an object: whether the object has the property named k, and its value
pub uninterp spec fn rv_has(x: RV, k: Seq<char>) -> bool;
pub uninterp spec fn rv_prop(x: RV, k: Seq<char>) -> RV;
// the string k as a value (what an index signature's key type is asked about)
pub uninterp spec fn rv_keyval(k: Seq<char>) -> RV;
#[verifier::external_body]
pub broadcast proof fn axiom_rv_keyval(k: Seq<char>)
    ensures rv_ok(#[trigger] rv_keyval(k)), rv_tag(rv_keyval(k)) == SubTypeTag::String
{}
// the values C07's equation is stated for: of a visible tag, and so are all their components, hereditarily
pub uninterp spec fn rv_ok(x: RV) -> bool;
#[verifier::external_body]
pub broadcast proof fn axiom_rv_ok(x: RV)
    requires #[trigger] rv_ok(x)
    ensures visible(rv_tag(x)),
        forall|i: int| 0 <= i < rv_len(x) ==> rv_ok(#[trigger] rv_at(x, i)),
        forall|i: int| 0 <= i < rv_len(x) ==> rv_ok(#[trigger] rv_key(x, i)),
        forall|k: Seq<char>| rv_has(x, k) ==> rv_ok(#[trigger] rv_prop(x, k)),
{}

// ---- what list / Set / Map atoms denote (definitional axioms of the model; object atoms stay uninterpreted)
pub open spec fn item_at(lt: ListAtomic, i: int) -> SemType {
    if i < lt.prefix_items@.len() { *lt.prefix_items@[i] } else { *lt.items }
}
pub open spec fn list_item_ok(ctx: SemTypeContext, lt: ListAtomic, x: RV, i: int) -> bool { mem(item_at(lt, i), vabs(ctx, rv_at(x, i))) }
pub open spec fn list_shape_den(ctx: SemTypeContext, lt: ListAtomic, x: RV) -> bool {
    &&& rv_tag(x) == SubTypeTag::List
    &&& rv_len(x) >= lt.prefix_items@.len()
    &&& forall|i: int| 0 <= i < rv_len(x) ==> #[trigger] list_item_ok(ctx, lt, x, i)
}
pub open spec fn set_shape_den(ctx: SemTypeContext, lt: ListAtomic, x: RV) -> bool {
    &&& rv_tag(x) == SubTypeTag::Set
    &&& forall|i: int| 0 <= i < rv_len(x) ==> mem(*lt.items, vabs(ctx, #[trigger] rv_at(x, i)))
}
pub open spec fn map_shape_den(ctx: SemTypeContext, mt: MappingAtomicType, x: RV) -> bool {
    &&& rv_tag(x) == SubTypeTag::Map
    &&& match mt.indexed_properties {
        Some(ip) => forall|i: int| 0 <= i < rv_len(x) ==> #[trigger] map_entry_ok(ctx, ip, x, i),
        None => true,
    }
}
pub open spec fn map_entry_ok(ctx: SemTypeContext, ip: IndexedPropertiesAtomic, x: RV, i: int) -> bool {
    mem(*ip.key, vabs(ctx, rv_key(x, i))) && mem(*ip.value, vabs(ctx, rv_at(x, i)))
}
pub open spec fn map_at(key: Runtype, value: Runtype, x: RV, i: int) -> bool { den(key, rv_key(x, i)) && den(value, rv_at(x, i)) }
#[verifier::external_body]
pub broadcast proof fn axiom_lt_den(ctx: SemTypeContext, lt: ListAtomic, is_set: bool, x: RV)
    ensures #[trigger] lt_den(ctx, lt, is_set, x) == (if is_set { set_shape_den(ctx, lt, x) } else { list_shape_den(ctx, lt, x) })
{}
#[verifier::external_body]
pub broadcast proof fn axiom_map_den(ctx: SemTypeContext, mt: MappingAtomicType, x: RV)
    ensures #[trigger] mt_den(ctx, mt, true, x) == map_shape_den(ctx, mt, x)
{}
pub open spec fn tuple_at(prefix_items: Seq<Runtype>, items: Option<Box<Runtype>>, x: RV, i: int) -> bool {
    if i < prefix_items.len() { den(prefix_items[i], rv_at(x, i)) } else { items is Some && den(*items->0, rv_at(x, i)) }
}
pub open spec fn tuple_den(prefix_items: Seq<Runtype>, items: Option<Box<Runtype>>, x: RV) -> bool {
    &&& rv_tag(x) == SubTypeTag::List
    &&& rv_len(x) >= prefix_items.len()
    &&& forall|i: int| 0 <= i < rv_len(x) ==> #[trigger] tuple_at(prefix_items, items, x, i)
}
// (ASSUMED) denotations of the four container constructors, as predicates so that lemmas can be keyed on them
pub open spec fn is_array_of(r: Runtype, item: Runtype) -> bool {
    forall|x: RV| #[trigger] den(r, x) == (rv_tag(x) == SubTypeTag::List && forall|i: int| 0 <= i < rv_len(x) ==> den(item, #[trigger] rv_at(x, i)))
}
pub open spec fn is_set_of(r: Runtype, item: Runtype) -> bool {
    forall|x: RV| #[trigger] den(r, x) == (rv_tag(x) == SubTypeTag::Set && forall|i: int| 0 <= i < rv_len(x) ==> den(item, #[trigger] rv_at(x, i)))
}
pub open spec fn is_map_of(r: Runtype, key: Runtype, value: Runtype) -> bool {
    forall|x: RV| #[trigger] den(r, x) == (rv_tag(x) == SubTypeTag::Map && forall|i: int| 0 <= i < rv_len(x) ==> #[trigger] map_at(key, value, x, i))
}
pub open spec fn is_tuple_of(r: Runtype, prefix_items: Seq<Runtype>, items: Option<Box<Runtype>>) -> bool {
    forall|x: RV| #[trigger] den(r, x) == tuple_den(prefix_items, items, x)
}
// "schema r denotes semantic type t" (on the values C07 speaks about)
pub open spec fn denotes(ctx: SemTypeContext, r: Runtype, t: SemType) -> bool {
    forall|y: RV| rv_ok(y) ==> #[trigger] den(r, y) == mem(t, vabs(ctx, y))
}
pub broadcast proof fn lemma_any_type(t: SemType, v: Val)
    requires t.all == VAL
    ensures #[trigger] mem(t, v)
{
    lemma_val();
    let c = code_of(tag_of(v));
    assert((0x3ffeu32 & c) != 0) by (bit_vector)
        requires c == 2 || c == 4 || c == 8 || c == 16 || c == 32 || c == 64 || c == 128 || c == 256 || c == 512 || c == 1024 || c == 2048 || c == 4096 || c == 8192;
}
pub broadcast proof fn lemma_never_type(t: SemType, v: Val)
    requires t.all == 0, t.subtype_data@.len() == 0
    ensures !#[trigger] mem(t, v)
{
    lemma_bit_zero(code_of(tag_of(v)));
}
// a list atom without prefix, materialised as array(schema of the rest type)
pub broadcast proof fn lemma_list_atom_array(ctx: SemTypeContext, lt: ListAtomic, inner: Runtype, r: Runtype)
    requires #[trigger] is_array_of(r, inner), #[trigger] denotes(ctx, inner, *lt.items), lt.prefix_items@.len() == 0
    ensures forall|x: RV| rv_ok(x) ==> #[trigger] den(r, x) == list_shape_den(ctx, lt, x)
{
    assert forall|x: RV| rv_ok(x) implies #[trigger] den(r, x) == list_shape_den(ctx, lt, x) by {
        axiom_rv_ok(x);
        assert forall|i: int| 0 <= i < rv_len(x) implies den(inner, #[trigger] rv_at(x, i)) == list_item_ok(ctx, lt, x, i) by {
            assert(rv_ok(rv_at(x, i)));
        }
        if den(r, x) { assert forall|i: int| 0 <= i < rv_len(x) implies #[trigger] list_item_ok(ctx, lt, x, i) by { assert(den(inner, rv_at(x, i))); } }
        if list_shape_den(ctx, lt, x) { assert forall|i: int| 0 <= i < rv_len(x) implies den(inner, #[trigger] rv_at(x, i)) by { assert(list_item_ok(ctx, lt, x, i)); } }
    }
}
// a list atom with a prefix, materialised as tuple(schemas of the prefix, schema of the rest type unless it is never)
pub open spec fn prefix_denotes(ctx: SemTypeContext, p: Seq<Runtype>, lt: ListAtomic) -> bool {
    p.len() <= lt.prefix_items@.len() && forall|j: int| 0 <= j < p.len() ==> denotes(ctx, #[trigger] p[j], *lt.prefix_items@[j])
}
pub broadcast proof fn lemma_list_atom_tuple(ctx: SemTypeContext, lt: ListAtomic, p: Seq<Runtype>, items: Option<Box<Runtype>>, r: Runtype)
    requires #[trigger] is_tuple_of(r, p, items), #[trigger] prefix_denotes(ctx, p, lt), p.len() == lt.prefix_items@.len(),
        items is Some ==> denotes(ctx, *items->0, *lt.items),
        items is None ==> forall|v: Val| !mem(*lt.items, v),
    ensures forall|x: RV| rv_ok(x) ==> #[trigger] den(r, x) == list_shape_den(ctx, lt, x)
{
    assert forall|x: RV| rv_ok(x) implies #[trigger] den(r, x) == list_shape_den(ctx, lt, x) by {
        axiom_rv_ok(x);
        assert(den(r, x) == tuple_den(p, items, x));
        if rv_tag(x) == SubTypeTag::List && rv_len(x) >= p.len() {
            assert forall|i: int| 0 <= i < rv_len(x) implies #[trigger] tuple_at(p, items, x, i) == list_item_ok(ctx, lt, x, i) by {
                assert(rv_ok(rv_at(x, i)));
                if i < p.len() { assert(denotes(ctx, p[i], *lt.prefix_items@[i])); }
            }
            if tuple_den(p, items, x) { assert forall|i: int| 0 <= i < rv_len(x) implies #[trigger] list_item_ok(ctx, lt, x, i) by { assert(tuple_at(p, items, x, i)); } }
            if list_shape_den(ctx, lt, x) { assert forall|i: int| 0 <= i < rv_len(x) implies #[trigger] tuple_at(p, items, x, i) by { assert(list_item_ok(ctx, lt, x, i)); } }
        }
    }
}
pub broadcast proof fn lemma_set_atom(ctx: SemTypeContext, lt: ListAtomic, inner: Runtype, r: Runtype)
    requires #[trigger] is_set_of(r, inner), #[trigger] denotes(ctx, inner, *lt.items)
    ensures forall|x: RV| rv_ok(x) ==> #[trigger] den(r, x) == set_shape_den(ctx, lt, x)
{
    assert forall|x: RV| rv_ok(x) implies #[trigger] den(r, x) == set_shape_den(ctx, lt, x) by {
        axiom_rv_ok(x);
        assert forall|i: int| 0 <= i < rv_len(x) implies den(inner, #[trigger] rv_at(x, i)) == mem(*lt.items, vabs(ctx, rv_at(x, i))) by {
            assert(rv_ok(rv_at(x, i)));
        }
    }
}
pub broadcast proof fn lemma_map_atom(ctx: SemTypeContext, ip: IndexedPropertiesAtomic, k: Runtype, v: Runtype, r: Runtype)
    requires #[trigger] is_map_of(r, k, v), #[trigger] denotes(ctx, k, *ip.key), #[trigger] denotes(ctx, v, *ip.value)
    ensures forall|x: RV| rv_ok(x) ==> #[trigger] den(r, x) == (rv_tag(x) == SubTypeTag::Map && forall|i: int| 0 <= i < rv_len(x) ==> #[trigger] map_entry_ok(ctx, ip, x, i))
{
    assert forall|x: RV| rv_ok(x) implies #[trigger] den(r, x) == (rv_tag(x) == SubTypeTag::Map && forall|i: int| 0 <= i < rv_len(x) ==> #[trigger] map_entry_ok(ctx, ip, x, i)) by {
        axiom_rv_ok(x);
        assert forall|i: int| 0 <= i < rv_len(x) implies #[trigger] map_at(k, v, x, i) == map_entry_ok(ctx, ip, x, i) by {
            assert(rv_ok(rv_at(x, i)) && rv_ok(rv_key(x, i)));
        }
        if den(r, x) { assert forall|i: int| 0 <= i < rv_len(x) implies #[trigger] map_entry_ok(ctx, ip, x, i) by { assert(map_at(k, v, x, i)); } }
        if rv_tag(x) == SubTypeTag::Map && (forall|i: int| 0 <= i < rv_len(x) ==> #[trigger] map_entry_ok(ctx, ip, x, i)) {
            assert forall|i: int| 0 <= i < rv_len(x) implies #[trigger] map_at(k, v, x, i) by { assert(map_entry_ok(ctx, ip, x, i)); }
        }
    }
}
// ---- what an OBJECT atom denotes (definitional axiom of the model), and what `Runtype::new(RuntypeKind::Object{..})`
// denotes (ASSUMED, R5). A declared property k with type t: the value of the property belongs to t, an absent
// property counts as the optional-property marker. Keys nobody declares fall under the index signature, if there is
// one: HOW the three facts "the object has the key", "the key belongs to the signature's key type", "the property (or
// its absence) fits the signature's value type" combine is left open on both sides (uninterpreted `idx_rule`: the
// engine reads a signature exactly on the left and structurally on the right, the run-time validator rejects keys
// outside the key type) - what is proved is that the schema and the atom agree on each of the three facts.
pub uninterp spec fn idx_rule(has: bool, key_fits: bool, value_fits: bool) -> bool;
pub open spec fn obj_field_ok(ctx: SemTypeContext, t: SemType, x: RV, k: Seq<char>) -> bool {
    if rv_has(x, k) { mem(t, vabs(ctx, rv_prop(x, k))) } else { mem(t, Val::OptionalProp) }
}
pub open spec fn declared<V>(vs: Map<String, V>, k: Seq<char>) -> bool { exists|s: String| vs.contains_key(s) && #[trigger] s@ == k }
pub open spec fn obj_idx_ok(ctx: SemTypeContext, ip: IndexedPropertiesAtomic, x: RV, k: Seq<char>) -> bool {
    idx_rule(rv_has(x, k), mem(*ip.key, vabs(ctx, rv_keyval(k))), obj_field_ok(ctx, *ip.value, x, k))
}
pub open spec fn obj_shape_den(ctx: SemTypeContext, mt: MappingAtomicType, x: RV) -> bool {
    &&& rv_tag(x) == SubTypeTag::Mapping
    &&& forall|s: String| mt.vs@.contains_key(s) ==> #[trigger] obj_field_ok(ctx, *mt.vs@[s], x, s@)
    &&& match mt.indexed_properties {
        Some(ip) => forall|k: Seq<char>| !declared(mt.vs@, k) ==> #[trigger] obj_idx_ok(ctx, ip, x, k),
        None => true,
    }
}
#[verifier::external_body]
pub broadcast proof fn axiom_obj_den(ctx: SemTypeContext, mt: MappingAtomicType, x: RV)
    ensures #[trigger] mt_den(ctx, mt, false, x) == obj_shape_den(ctx, mt, x)
{}
// the Runtype side
pub open spec fn opt_den(o: Optionality<Runtype>, x: RV, k: Seq<char>) -> bool {
    match o {
        Optionality::Optional(s) => !rv_has(x, k) || den(s, rv_prop(x, k)),
        Optionality::Required(s) => rv_has(x, k) && den(s, rv_prop(x, k)),
    }
}
pub open spec fn rt_idx_ok(b: IndexedProperty, x: RV, k: Seq<char>) -> bool {
    idx_rule(rv_has(x, k), den(b.key, rv_keyval(k)), opt_den(b.value, x, k))
}
pub open spec fn object_den(vs: Map<String, Optionality<Runtype>>, ip: Option<Box<IndexedProperty>>, x: RV) -> bool {
    &&& rv_tag(x) == SubTypeTag::Mapping
    &&& forall|s: String| vs.contains_key(s) ==> #[trigger] opt_den(vs[s], x, s@)
    &&& match ip {
        Some(b) => forall|k: Seq<char>| !declared(vs, k) ==> #[trigger] rt_idx_ok(*b, x, k),
        None => true,
    }
}
pub open spec fn is_object_of(r: Runtype, vs: Map<String, Optionality<Runtype>>, ip: Option<Box<IndexedProperty>>) -> bool {
    forall|x: RV| #[trigger] den(r, x) == object_den(vs, ip, x)
}
// R5: stand-in declaration of the one variant of `RuntypeKind` the materialisation builds directly
pub enum RuntypeKind {
    Object { vs: BTreeMap<String, Optionality<Runtype>>, indexed_properties: Option<Box<IndexedProperty>> },
}
impl Runtype {
    #[verifier::external_body] pub fn new(kind: RuntypeKind) -> (r: Runtype)
        ensures (match kind { RuntypeKind::Object { vs, indexed_properties } => is_object_of(r, vs@, indexed_properties) }) { unimplemented!() }
    #[verifier::external_body] pub fn required(self) -> (r: Optionality<Runtype>) ensures r == Optionality::Required(self) { unimplemented!() }
    #[verifier::external_body] pub fn optional(self) -> (r: Optionality<Runtype>) ensures r == Optionality::Optional(self) { unimplemented!() }
}
// R18: `BTreeMap::from_iter(v)` on a Vec of pairs (assumed std behaviour: later entries win)
pub open spec fn last_wins<K, V>(s: Seq<(K, V)>, i: int) -> bool { forall|j: int| i < j < s.len() ==> s[j].0 != s[i].0 }
pub open spec fn map_of_pairs<K, V>(pairs: Seq<(K, V)>, m: Map<K, V>) -> bool {
    &&& forall|k: K| #[trigger] m.contains_key(k) ==> exists|i: int| 0 <= i < pairs.len() && pairs[i].0 == k
    &&& forall|i: int| 0 <= i < pairs.len() && last_wins(pairs, i) ==> m.contains_key(#[trigger] pairs[i].0) && m[pairs[i].0] == pairs[i].1
}
#[verifier::external_body]
pub fn vmap_from_vec<K: Ord, V>(it: Vec<(K, V)>) -> (r: BTreeMap<K, V>)
    ensures map_of_pairs(it@, r@)
{ BTreeMap::from_iter(it) }
// "the field schema o stands for the component type t": optional exactly when t admits the optional-property marker
pub open spec fn opt_stands_for(ctx: SemTypeContext, o: Optionality<Runtype>, t: SemType) -> bool {
    match o {
        Optionality::Optional(s) => bit(t.all, 64u32) && denotes(ctx, s, t),
        Optionality::Required(s) => !bit(t.all, 64u32) && denotes(ctx, s, t),
    }
}
pub proof fn lemma_mem_optional_marker(t: SemType)
    ensures mem(t, Val::OptionalProp) == bit(t.all, 64u32)
{
    lemma_val();
}
pub proof fn lemma_field(ctx: SemTypeContext, o: Optionality<Runtype>, t: SemType, x: RV, k: Seq<char>)
    requires opt_stands_for(ctx, o, t), rv_ok(x)
    ensures opt_den(o, x, k) == obj_field_ok(ctx, t, x, k)
{
    axiom_rv_ok(x);
    lemma_mem_optional_marker(t);
    if rv_has(x, k) { assert(rv_ok(rv_prop(x, k))); }
}
// the index signature of the schema stands for the index signature of the atom
pub open spec fn ip_stands_for_h(ctx: SemTypeContext, b: Option<Box<IndexedProperty>>, mt: MappingAtomicType, hyp: bool) -> bool {
    match (b, mt.indexed_properties) {
        (Some(b), Some(ip)) => hyp ==> denotes(ctx, b.key, *ip.key) && opt_stands_for(ctx, b.value, *ip.value),
        (None, None) => true,
        _ => false,
    }
}
// the collected (key, field schema) pairs stand for the declared properties of the atom ...
pub open spec fn acc_stands_for(ctx: SemTypeContext, mt: MappingAtomicType, pairs: Seq<(String, Optionality<Runtype>)>, hyp: bool) -> bool {
    &&& forall|i: int| 0 <= i < pairs.len() ==> mt.vs@.contains_key(#[trigger] pairs[i].0) && (hyp ==> opt_stands_for(ctx, pairs[i].1, *mt.vs@[pairs[i].0]))
    &&& forall|s: String| mt.vs@.contains_key(s) ==> exists|j: int| 0 <= j < pairs.len() && #[trigger] pairs[j].0 == s
    &&& forall|i: int| 0 <= i < pairs.len() ==> #[trigger] last_wins(pairs, i)
}
// ... and so does the map built from them
pub open spec fn vs_stands_for(ctx: SemTypeContext, mt: MappingAtomicType, vs: Map<String, Optionality<Runtype>>, hyp: bool) -> bool {
    &&& forall|s: String| #[trigger] vs.contains_key(s) == mt.vs@.contains_key(s)
    &&& forall|s: String| mt.vs@.contains_key(s) ==> (hyp ==> opt_stands_for(ctx, #[trigger] vs[s], *mt.vs@[s]))
}
pub broadcast proof fn lemma_pairs_to_map(ctx: SemTypeContext, mt: MappingAtomicType, pairs: Seq<(String, Optionality<Runtype>)>, vs: Map<String, Optionality<Runtype>>, hyp: bool)
    requires #[trigger] map_of_pairs(pairs, vs), #[trigger] acc_stands_for(ctx, mt, pairs, hyp)
    ensures vs_stands_for(ctx, mt, vs, hyp)
{
    assert forall|s: String| #[trigger] vs.contains_key(s) == mt.vs@.contains_key(s) by {
        if vs.contains_key(s) { let i = choose|i: int| 0 <= i < pairs.len() && pairs[i].0 == s; assert(mt.vs@.contains_key(pairs[i].0)); }
        if mt.vs@.contains_key(s) { let j = choose|j: int| 0 <= j < pairs.len() && #[trigger] pairs[j].0 == s; assert(last_wins(pairs, j)); assert(vs.contains_key(pairs[j].0)); }
    }
    assert forall|s: String| mt.vs@.contains_key(s) implies (hyp ==> opt_stands_for(ctx, #[trigger] vs[s], *mt.vs@[s])) by {
        let j = choose|j: int| 0 <= j < pairs.len() && #[trigger] pairs[j].0 == s;
        assert(last_wins(pairs, j));
        assert(vs[pairs[j].0] == pairs[j].1);
    }
}
pub broadcast proof fn lemma_obj_atom(ctx: SemTypeContext, mt: MappingAtomicType, vs: Map<String, Optionality<Runtype>>, b: Option<Box<IndexedProperty>>, r: Runtype, hyp: bool)
    requires #[trigger] is_object_of(r, vs, b), #[trigger] vs_stands_for(ctx, mt, vs, hyp), #[trigger] ip_stands_for_h(ctx, b, mt, hyp),
    ensures hyp ==> forall|x: RV| rv_ok(x) ==> #[trigger] den(r, x) == obj_shape_den(ctx, mt, x)
{
    if hyp {
    assert forall|x: RV| rv_ok(x) implies #[trigger] den(r, x) == obj_shape_den(ctx, mt, x) by {
        assert(den(r, x) == object_den(vs, b, x));
        assert forall|s: String| mt.vs@.contains_key(s) implies opt_den(vs[s], x, s@) == obj_field_ok(ctx, *mt.vs@[s], x, s@) by {
            lemma_field(ctx, vs[s], *mt.vs@[s], x, s@);
        }
        assert forall|k: Seq<char>| declared(vs, k) == declared(mt.vs@, k) by {
            if declared(vs, k) { let s = choose|s: String| vs.contains_key(s) && #[trigger] s@ == k; assert(mt.vs@.contains_key(s) && s@ == k); }
            if declared(mt.vs@, k) { let s = choose|s: String| mt.vs@.contains_key(s) && #[trigger] s@ == k; assert(vs.contains_key(s) && s@ == k); }
        }
        match (b, mt.indexed_properties) {
            (Some(bb), Some(ip)) => {
                assert forall|k: Seq<char>| rt_idx_ok(*bb, x, k) == obj_idx_ok(ctx, ip, x, k) by {
                    lemma_field(ctx, bb.value, *ip.value, x, k);
                    axiom_rv_keyval(k);
                }
                if object_den(vs, b, x) {
                    assert forall|s: String| mt.vs@.contains_key(s) implies #[trigger] obj_field_ok(ctx, *mt.vs@[s], x, s@) by { assert(opt_den(vs[s], x, s@)); }
                    assert forall|k: Seq<char>| !declared(mt.vs@, k) implies #[trigger] obj_idx_ok(ctx, ip, x, k) by { assert(rt_idx_ok(*bb, x, k)); }
                }
                if obj_shape_den(ctx, mt, x) {
                    assert forall|s: String| vs.contains_key(s) implies #[trigger] opt_den(vs[s], x, s@) by { assert(obj_field_ok(ctx, *mt.vs@[s], x, s@)); }
                    assert forall|k: Seq<char>| !declared(vs, k) implies #[trigger] rt_idx_ok(*bb, x, k) by { assert(obj_idx_ok(ctx, ip, x, k)); }
                }
            }
            (None, None) => {
                if object_den(vs, b, x) {
                    assert forall|s: String| mt.vs@.contains_key(s) implies #[trigger] obj_field_ok(ctx, *mt.vs@[s], x, s@) by { assert(opt_den(vs[s], x, s@)); }
                }
                if obj_shape_den(ctx, mt, x) {
                    assert forall|s: String| vs.contains_key(s) implies #[trigger] opt_den(vs[s], x, s@) by { assert(obj_field_ok(ctx, *mt.vs@[s], x, s@)); }
                }
            }
            _ => {}
        }
    }
    }
}
// an object atom's component types are in the fragment
pub open spec fn mt_obj_ok(ctx: SemTypeContext, mt: MappingAtomicType) -> bool {
    &&& forall|s: String| mt.vs@.contains_key(s) ==> ty_ok(ctx, *#[trigger] mt.vs@[s])
    &&& match mt.indexed_properties { Some(ip) => ty_ok(ctx, *ip.key) && ty_ok(ctx, *ip.value), None => true }
}
// the component types stored in the context's tables are themselves in the fragment C07 is stated for
pub open spec fn ty_ok(ctx: SemTypeContext, t: SemType) -> bool { wf(t) && flat(t) && kinds_ok(ctx, t) }
pub open spec fn lt_ok(ctx: SemTypeContext, lt: ListAtomic) -> bool {
    &&& ty_ok(ctx, *lt.items)
    &&& forall|i: int| 0 <= i < lt.prefix_items@.len() ==> ty_ok(ctx, *#[trigger] lt.prefix_items@[i])
}
pub open spec fn mt_map_ok(ctx: SemTypeContext, mt: MappingAtomicType) -> bool {
    match mt.indexed_properties { Some(ip) => ty_ok(ctx, *ip.key) && ty_ok(ctx, *ip.value), None => true }
}
pub open spec fn tables_ok(ctx: SemTypeContext) -> bool {
    &&& forall|i: usize| list_defined(ctx, i) ==> lt_ok(ctx, #[trigger] list_def(ctx, i))
    &&& forall|i: usize| set_defined(ctx, i) ==> lt_ok(ctx, #[trigger] set_def(ctx, i))
    &&& forall|i: usize| map_defined(ctx, i) ==> mt_map_ok(ctx, #[trigger] map_def(ctx, i))
    &&& forall|i: usize| mapping_defined(ctx, i) ==> mt_obj_ok(ctx, #[trigger] mapping_def(ctx, i))
}
pub open spec fn vabs(ctx: SemTypeContext, x: RV) -> Val {
    match rv_tag(x) {
        SubTypeTag::Boolean => Val::Bool(rv_bool(x)),
        SubTypeTag::Number => Val::Num(rv_num(x)),
        SubTypeTag::String => Val::Str(rv_str(x)),
        SubTypeTag::Null => Val::Null,
        SubTypeTag::OptionalProp => Val::OptionalProp,
        SubTypeTag::BigInt => Val::BigInt,
        SubTypeTag::Date => Val::Date,
        SubTypeTag::VoidUndefined => Val::VU(rv_vu(x)),
        SubTypeTag::TypedArray => Val::TA(rv_ta(x)),
        SubTypeTag::Mapping => Val::Mapping(env_of(ctx, x)),
        SubTypeTag::List => Val::List(env_of(ctx, x)),
        SubTypeTag::Map => Val::Map(env_of(ctx, x)),
        SubTypeTag::Set => Val::Set(env_of(ctx, x)),
    }
}
// `undefined` at run time conflates OptionalProp / Void / Undefined, which the engine keeps apart:
// C07's equation is stated for the other eleven tags
pub open spec fn visible(t: SubTypeTag) -> bool { t != SubTypeTag::OptionalProp && t != SubTypeTag::VoidUndefined }
// an atomic object/Map/list/Set type only contains values of its own kind (hypothesis on the
// uninterpreted atom denotations, stated explicitly where it is used)
pub open spec fn atoms_kind_pure() -> bool {
    &&& forall|ctx: SemTypeContext, mt: MappingAtomicType, m: bool, x: RV| #[trigger] mt_den(ctx, mt, m, x) ==> rv_tag(x) == (if m { SubTypeTag::Map } else { SubTypeTag::Mapping })
    &&& forall|ctx: SemTypeContext, lt: ListAtomic, s: bool, x: RV| #[trigger] lt_den(ctx, lt, s, x) ==> rv_tag(x) == (if s { SubTypeTag::Set } else { SubTypeTag::List })
}
pub open spec fn str_is_const(s: StringLitOrFormat, c: Seq<char>) -> bool {
    match s {
        StringLitOrFormat::Tpl(t) => t.0@.len() == 1 && (match t.0@[0] { TplLitTypeItem::StringConst(s2) => s2@ == c, _ => false }),
        _ => false,
    }
}
// T2 (structural equality of Rust values): two single-constant template literals with the same text are equal
#[verifier::external_body]
pub proof fn axiom_tpl_single_ext(a: StringLitOrFormat, b: StringLitOrFormat, c: Seq<char>)
    requires str_is_const(a, c), str_is_const(b, c)
    ensures a == b
{}

// R5 (contract-only, ASSUMED denotations): the leaf constructors of Runtype used by the materialisation
impl Runtype {
    #[verifier::external_body] pub fn never() -> (r: Runtype) ensures forall|x: RV| !#[trigger] den(r, x) { unimplemented!() }
    #[verifier::external_body] pub fn any() -> (r: Runtype) ensures forall|x: RV| #[trigger] den(r, x) { unimplemented!() }
    #[verifier::external_body] pub fn null() -> (r: Runtype) ensures forall|x: RV| #[trigger] den(r, x) == (rv_tag(x) == SubTypeTag::Null) { unimplemented!() }
    #[verifier::external_body] pub fn boolean() -> (r: Runtype) ensures forall|x: RV| #[trigger] den(r, x) == (rv_tag(x) == SubTypeTag::Boolean) { unimplemented!() }
    #[verifier::external_body] pub fn number() -> (r: Runtype) ensures forall|x: RV| #[trigger] den(r, x) == (rv_tag(x) == SubTypeTag::Number) { unimplemented!() }
    #[verifier::external_body] pub fn string() -> (r: Runtype) ensures forall|x: RV| #[trigger] den(r, x) == (rv_tag(x) == SubTypeTag::String) { unimplemented!() }
    #[verifier::external_body] pub fn bigint() -> (r: Runtype) ensures forall|x: RV| #[trigger] den(r, x) == (rv_tag(x) == SubTypeTag::BigInt) { unimplemented!() }
    #[verifier::external_body] pub fn date() -> (r: Runtype) ensures forall|x: RV| #[trigger] den(r, x) == (rv_tag(x) == SubTypeTag::Date) { unimplemented!() }
    #[verifier::external_body] pub fn any_object() -> (r: Runtype) ensures forall|x: RV| #[trigger] den(r, x) == (rv_tag(x) == SubTypeTag::Mapping) { unimplemented!() }
    #[verifier::external_body] pub fn any_array_like() -> (r: Runtype) ensures forall|x: RV| #[trigger] den(r, x) == (rv_tag(x) == SubTypeTag::List) { unimplemented!() }
    #[verifier::external_body] pub fn undefined() -> (r: Runtype) ensures forall|x: RV| #[trigger] den(r, x) ==> !visible(rv_tag(x)) { unimplemented!() }
    #[verifier::external_body] pub fn void() -> (r: Runtype) ensures forall|x: RV| #[trigger] den(r, x) ==> !visible(rv_tag(x)) { unimplemented!() }
    #[verifier::external_body] pub fn typed_array(kind: TypedArrayKind) -> (r: Runtype)
        ensures forall|x: RV| #[trigger] den(r, x) == (rv_tag(x) == SubTypeTag::TypedArray && rv_ta(x) == kind) { unimplemented!() }
    #[verifier::external_body] pub fn map(key: Box<Runtype>, value: Box<Runtype>) -> (r: Runtype)
        ensures is_map_of(r, *key, *value) { unimplemented!() }
    #[verifier::external_body] pub fn set(value: Box<Runtype>) -> (r: Runtype)
        ensures is_set_of(r, *value) { unimplemented!() }
    #[verifier::external_body] pub fn array(item: Box<Runtype>) -> (r: Runtype)
        ensures is_array_of(r, *item) { unimplemented!() }
    #[verifier::external_body] pub fn tuple(prefix_items: Vec<Runtype>, items: Option<Box<Runtype>>) -> (r: Runtype)
        ensures is_tuple_of(r, prefix_items@, items) { unimplemented!() }
    #[verifier::external_body] pub fn const_(value: RuntypeConst) -> (r: Runtype)
        ensures forall|x: RV| #[trigger] den(r, x) == (match value {
            RuntypeConst::Bool(b) => rv_tag(x) == SubTypeTag::Boolean && rv_bool(x) == b,
            RuntypeConst::Number(n) => rv_tag(x) == SubTypeTag::Number && rv_num(x) == NumberRepresentationOrFormat::Lit(n),
        }) { unimplemented!() }
    #[verifier::external_body] pub fn number_with_format(format: CustomFormat) -> (r: Runtype)
        ensures forall|x: RV| #[trigger] den(r, x) == (rv_tag(x) == SubTypeTag::Number && rv_num(x) == NumberRepresentationOrFormat::Format(format)) { unimplemented!() }
    #[verifier::external_body] pub fn string_with_format(format: CustomFormat) -> (r: Runtype)
        ensures forall|x: RV| #[trigger] den(r, x) == (rv_tag(x) == SubTypeTag::String && rv_str(x) == StringLitOrFormat::Format(format)) { unimplemented!() }
    #[verifier::external_body] pub fn tpl_lit_type(tpl: TplLitType) -> (r: Runtype)
        ensures forall|x: RV| #[trigger] den(r, x) == (rv_tag(x) == SubTypeTag::String && rv_str(x) == StringLitOrFormat::Tpl(tpl)) { unimplemented!() }
    #[verifier::external_body] pub fn single_string_const(it: &str) -> (r: Runtype)
        ensures forall|x: RV| #[trigger] den(r, x) == (rv_tag(x) == SubTypeTag::String && str_is_const(rv_str(x), it@)) { unimplemented!() }
}
// T2: derived Clone on the literal payloads returns an equal value
pub assume_specification[ <N as Clone>::clone ](x: &N) -> (r: N) ensures r == *x;
pub assume_specification[ <TplLitType as Clone>::clone ](x: &TplLitType) -> (r: TplLitType) ensures r == *x;

// ---------------------------------------------------------------- sets of alternatives
pub open spec fn set_den(s: Set<Runtype>, x: RV) -> bool { exists|m: Runtype| s.contains(m) && #[trigger] den(m, x) }
pub broadcast proof fn lemma_set_den_insert(s: Set<Runtype>, m: Runtype, x: RV)
    ensures #[trigger] set_den(s.insert(m), x) == (set_den(s, x) || den(m, x))
{
    if set_den(s.insert(m), x) {
        let w = choose|w: Runtype| s.insert(m).contains(w) && #[trigger] den(w, x);
        if w != m { assert(s.contains(w) && den(w, x)); }
    }
    if set_den(s, x) {
        let w = choose|w: Runtype| s.contains(w) && #[trigger] den(w, x);
        assert(s.insert(m).contains(w) && den(w, x));
    }
    if den(m, x) { assert(s.insert(m).contains(m) && den(m, x)); }
}
pub broadcast proof fn lemma_set_den_empty(x: RV)
    ensures !#[trigger] set_den(Set::<Runtype>::empty(), x) {}
pub broadcast proof fn lemma_any_den_set_den(s: Seq<Runtype>, x: RV)
    ensures #[trigger] any_den(s, x) == set_den(s.to_set(), x)
{
    lemma_any_den_as_set(s, x);
}

// stage A: the fully included tags
pub open spec fn full_upto(all: u32, k: int, x: RV) -> bool {
    exists|j: int| 0 <= j < k && j < 13 && #[trigger] all_tags()[j] == rv_tag(x) && bit(all, code_of(all_tags()[j]))
}
pub broadcast proof fn lemma_full_upto_step(all: u32, k: int, j: int, x: RV)
    requires 0 <= k < 13, j == k + 1
    ensures #![trigger full_upto(all, k, x), full_upto(all, j, x)]
        full_upto(all, j, x) == (full_upto(all, k, x) || (all_tags()[k] == rv_tag(x) && bit(all, code_of(all_tags()[k]))))
{
    if full_upto(all, j, x) {
        let i = choose|i: int| 0 <= i < j && i < 13 && #[trigger] all_tags()[i] == rv_tag(x) && bit(all, code_of(all_tags()[i]));
        if i < k { assert(0 <= i < k && i < 13 && all_tags()[i] == rv_tag(x) && bit(all, code_of(all_tags()[i]))); }
    }
    if full_upto(all, k, x) {
        let i = choose|i: int| 0 <= i < k && i < 13 && #[trigger] all_tags()[i] == rv_tag(x) && bit(all, code_of(all_tags()[i]));
        assert(0 <= i < j && i < 13 && all_tags()[i] == rv_tag(x) && bit(all, code_of(all_tags()[i])));
    }
    if all_tags()[k] == rv_tag(x) && bit(all, code_of(all_tags()[k])) {
        assert(0 <= k < j && k < 13 && all_tags()[k] == rv_tag(x) && bit(all, code_of(all_tags()[k])));
    }
}
pub broadcast proof fn lemma_full_upto_zero(all: u32, x: RV)
    ensures !#[trigger] full_upto(all, 0, x) {}
pub broadcast proof fn lemma_full_upto_all(all: u32, x: RV)
    ensures #[trigger] full_upto(all, 13, x) == bit(all, code_of(rv_tag(x)))
{
    let t = all_tags();
    let g = rv_tag(x);
    let j: int = match g {
        SubTypeTag::String => 0, SubTypeTag::Boolean => 1, SubTypeTag::Number => 2, SubTypeTag::OptionalProp => 3, SubTypeTag::Null => 4,
        SubTypeTag::Mapping => 5, SubTypeTag::List => 6, SubTypeTag::BigInt => 7, SubTypeTag::Date => 8, SubTypeTag::VoidUndefined => 9,
        SubTypeTag::TypedArray => 10, SubTypeTag::Map => 11, SubTypeTag::Set => 12,
    };
    assert(t[j] == g);
    if bit(all, code_of(g)) { assert(0 <= j < 13 && j < 13 && all_tags()[j] == rv_tag(x) && bit(all, code_of(all_tags()[j]))); }
}
pub open spec fn elem_upto<T>(s: Seq<T>, k: int, v: T) -> bool { exists|j: int| 0 <= j < k && j < s.len() && #[trigger] s[j] == v }
pub broadcast proof fn lemma_elem_upto_step<T>(s: Seq<T>, k: int, j: int, v: T)
    requires 0 <= k < s.len(), j == k + 1
    ensures #![trigger elem_upto(s, k, v), elem_upto(s, j, v)] elem_upto(s, j, v) == (elem_upto(s, k, v) || s[k] == v)
{
    if elem_upto(s, j, v) {
        let i = choose|i: int| 0 <= i < j && i < s.len() && #[trigger] s[i] == v;
        if i < k { assert(0 <= i < k && i < s.len() && s[i] == v); }
    }
    if elem_upto(s, k, v) {
        let i = choose|i: int| 0 <= i < k && i < s.len() && #[trigger] s[i] == v;
        assert(0 <= i < j && i < s.len() && s[i] == v);
    }
    if s[k] == v { assert(0 <= k < j && k < s.len() && s[k] == v); }
}
pub broadcast proof fn lemma_elem_upto_zero<T>(s: Seq<T>, v: T)
    ensures !#[trigger] elem_upto(s, 0, v) {}
pub broadcast proof fn lemma_elem_upto_full<T>(s: Seq<T>, v: T)
    ensures #[trigger] elem_upto(s, s.len() as int, v) == s.contains(v)
{
    if s.contains(v) { let i = choose|i: int| 0 <= i < s.len() && s[i] == v; assert(0 <= i < s.len() && i < s.len() && s[i] == v); }
}

// stage B: the proper subtypes, entry by entry
pub open spec fn in_seq_upto(d: PSeq, k: int, v: Val) -> bool {
    exists|i: int| 0 <= i < k && i < d.len() && ptag(*#[trigger] d[i]) == tag_of(v) && mem_proper(*d[i], v)
}
pub broadcast proof fn lemma_in_seq_upto_step(d: PSeq, k: int, j: int, v: Val)
    requires 0 <= k < d.len(), j == k + 1
    ensures #![trigger in_seq_upto(d, k, v), in_seq_upto(d, j, v)]
        in_seq_upto(d, j, v) == (in_seq_upto(d, k, v) || (rtag(d[k]) == tag_of(v) && rmem(d[k], v)))
{
    if in_seq_upto(d, j, v) {
        let i = choose|i: int| 0 <= i < j && i < d.len() && ptag(*#[trigger] d[i]) == tag_of(v) && mem_proper(*d[i], v);
        if i < k { assert(0 <= i < k && i < d.len() && rtag(d[i]) == tag_of(v) && rmem(d[i], v)); }
    }
    if in_seq_upto(d, k, v) {
        let i = choose|i: int| 0 <= i < k && i < d.len() && ptag(*#[trigger] d[i]) == tag_of(v) && mem_proper(*d[i], v);
        assert(0 <= i < j && i < d.len() && rtag(d[i]) == tag_of(v) && rmem(d[i], v));
    }
    if rtag(d[k]) == tag_of(v) && rmem(d[k], v) { assert(0 <= k < j && k < d.len() && rtag(d[k]) == tag_of(v) && rmem(d[k], v)); }
}
pub broadcast proof fn lemma_in_seq_upto_zero(d: PSeq, v: Val)
    ensures !#[trigger] in_seq_upto(d, 0, v) {}
pub broadcast proof fn lemma_in_seq_upto_full(d: PSeq, v: Val)
    ensures #[trigger] in_seq_upto(d, d.len() as int, v) == in_seq(d, v)
{
    if in_seq(d, v) {
        let i = choose|i: int| 0 <= i < d.len() && ptag(*#[trigger] d[i]) == tag_of(v) && mem_proper(*d[i], v);
        assert(0 <= i < d.len() && i < d.len() && rtag(d[i]) == tag_of(v) && rmem(d[i], v));
    }
}

// the diagrams of the structured kinds only mention their own kind of atoms, defined in the context
pub open spec fn kinds_ok(ctx: SemTypeContext, t: SemType) -> bool {
    forall|i: int| 0 <= i < t.subtype_data@.len() ==> match *#[trigger] t.subtype_data@[i] {
        ProperSubtype::Mapping(b) => bdd_atoms_ok(ctx, *b, 0),
        ProperSubtype::List(b) => bdd_atoms_ok(ctx, *b, 1),
        ProperSubtype::Map(b) => bdd_atoms_ok(ctx, *b, 2),
        ProperSubtype::Set(b) => bdd_atoms_ok(ctx, *b, 3),
        _ => true,
    }
}
pub open spec fn kind_tag(kind: int) -> SubTypeTag {
    if kind == 0 { SubTypeTag::Mapping } else if kind == 1 { SubTypeTag::List } else if kind == 2 { SubTypeTag::Map } else { SubTypeTag::Set }
}
// ---------------------------------------------------------------- invariants of convert_to_schema_no_cache
pub open spec fn stage_a(all: u32, acc: Set<Runtype>, k: int) -> bool {
    forall|x: RV| rv_ok(x) ==> #[trigger] set_den(acc, x) == full_upto(all, k, x)
}
pub open spec fn stage_a_ta(all: u32, acc: Set<Runtype>, k: int, kinds: Seq<TypedArrayKind>, idx: int) -> bool {
    forall|x: RV| rv_ok(x) ==> #[trigger] set_den(acc, x)
        == (full_upto(all, k, x) || (rv_tag(x) == SubTypeTag::TypedArray && elem_upto(kinds, idx, rv_ta(x))))
}
pub open spec fn base_b(ctx: SemTypeContext, t: SemType, i: int, x: RV) -> bool {
    bit(t.all, code_of(rv_tag(x))) || in_seq_upto(t.subtype_data@, i, vabs(ctx, x))
}
pub open spec fn stage_b(ctx: SemTypeContext, t: SemType, acc: Set<Runtype>, i: int) -> bool {
    forall|x: RV| rv_ok(x) ==> #[trigger] set_den(acc, x) == base_b(ctx, t, i, x)
}
pub open spec fn stage_b_num(ctx: SemTypeContext, t: SemType, acc: Set<Runtype>, i: int, values: Seq<NumberRepresentationOrFormat>, idx: int) -> bool {
    forall|x: RV| rv_ok(x) ==> #[trigger] set_den(acc, x)
        == (base_b(ctx, t, i, x) || (rv_tag(x) == SubTypeTag::Number && elem_upto(values, idx, rv_num(x))))
}
pub open spec fn stage_b_str(ctx: SemTypeContext, t: SemType, acc: Set<Runtype>, i: int, values: Seq<StringLitOrFormat>, idx: int) -> bool {
    forall|x: RV| rv_ok(x) ==> #[trigger] set_den(acc, x)
        == (base_b(ctx, t, i, x) || (rv_tag(x) == SubTypeTag::String && elem_upto(values, idx, rv_str(x))))
}
pub open spec fn stage_b_ta(ctx: SemTypeContext, t: SemType, acc: Set<Runtype>, i: int, values: Seq<TypedArrayKind>, idx: int) -> bool {
    forall|x: RV| rv_ok(x) ==> #[trigger] set_den(acc, x)
        == (base_b(ctx, t, i, x) || (rv_tag(x) == SubTypeTag::TypedArray && elem_upto(values, idx, rv_ta(x))))
}
pub open spec fn schema_pre(ctx: SemTypeContext, t: SemType) -> bool {
    wf(t) && flat(t) && kinds_ok(ctx, t) && atoms_kind_pure() && tables_ok(ctx)
}

pub open spec fn all_kinds() -> Seq<TypedArrayKind> {
    seq![TypedArrayKind::Uint8Array, TypedArrayKind::Uint8ClampedArray, TypedArrayKind::Uint16Array, TypedArrayKind::Uint32Array,
         TypedArrayKind::Int8Array, TypedArrayKind::Int16Array, TypedArrayKind::Int32Array, TypedArrayKind::Float32Array,
         TypedArrayKind::Float64Array, TypedArrayKind::BigInt64Array, TypedArrayKind::BigUint64Array]
}
pub broadcast proof fn lemma_all_kinds_complete(k: TypedArrayKind)
    ensures #[trigger] all_kinds().contains(k)
{
    let s = all_kinds();
    let j: int = match k {
        TypedArrayKind::Uint8Array => 0, TypedArrayKind::Uint8ClampedArray => 1, TypedArrayKind::Uint16Array => 2, TypedArrayKind::Uint32Array => 3,
        TypedArrayKind::Int8Array => 4, TypedArrayKind::Int16Array => 5, TypedArrayKind::Int32Array => 6, TypedArrayKind::Float32Array => 7,
        TypedArrayKind::Float64Array => 8, TypedArrayKind::BigInt64Array => 9, TypedArrayKind::BigUint64Array => 10,
    };
    assert(s[j] == k);
}

pub broadcast proof fn lemma_tpl_single_ext_b(a: StringLitOrFormat, b: StringLitOrFormat, c: Seq<char>)
    requires #[trigger] str_is_const(a, c), #[trigger] str_is_const(b, c)
    ensures a == b
{
    axiom_tpl_single_ext(a, b, c);
}

pub open spec fn text_of(s: StringLitOrFormat) -> Seq<char> {
    match s {
        StringLitOrFormat::Tpl(t) => match t.0@[0] { TplLitTypeItem::StringConst(s2) => s2@, _ => Seq::empty() },
        _ => Seq::empty(),
    }
}
pub broadcast proof fn lemma_flat_str_is_const(s: StringLitOrFormat)
    requires #[trigger] s.flat_lit()
    ensures str_is_const(s, text_of(s))
{}

// ---------------------------------------------------------------- after the fix (intersections with the base type)
pub open spec fn base_ok(c: ClauseView, kind: int, x: RV) -> bool { c.0.len() == 0 ==> rv_tag(x) == kind_tag(kind) }
// a clause with a positive atom only holds for values of its own kind
pub broadcast proof fn lemma_clause_kind(ctx: SemTypeContext, c: ClauseView, kind: int, x: RV)
    requires atoms_kind_pure(), 0 <= kind <= 3, c.0.len() > 0
    ensures #![trigger clause_holds(ctx, c, x), clause_ok(ctx, c, kind)]
        clause_ok(ctx, c, kind) && clause_holds(ctx, c, x) ==> rv_tag(x) == kind_tag(kind)
{
    if clause_ok(ctx, c, kind) && clause_holds(ctx, c, x) {
        let a = c.0[0];
        assert(env_of(ctx, x)(a));
        assert(atom_holds(ctx, a, x));
        assert(atom_defined(ctx, c.0[0]));
    }
}
pub open spec fn kinded_upto(ctx: SemTypeContext, d: Seq<Conjunction>, kind: int, k: int, x: RV) -> bool {
    rv_tag(x) == kind_tag(kind) && dnf_upto(d, k, env_of(ctx, x))
}
pub open spec fn excl_num(values: Seq<NumberRepresentationOrFormat>, idx: int, ex: Seq<Runtype>) -> bool {
    forall|x: RV| #[trigger] all_den(ex, x) == (rv_tag(x) == SubTypeTag::Number && !elem_upto(values, idx, rv_num(x)))
}
pub open spec fn excl_str(values: Seq<StringLitOrFormat>, idx: int, ex: Seq<Runtype>) -> bool {
    forall|x: RV| #[trigger] all_den(ex, x) == (rv_tag(x) == SubTypeTag::String && !elem_upto(values, idx, rv_str(x)))
}
pub open spec fn excl_ta(values: Seq<TypedArrayKind>, idx: int, ex: Seq<Runtype>) -> bool {
    forall|x: RV| #[trigger] all_den(ex, x) == (rv_tag(x) == SubTypeTag::TypedArray && !elem_upto(values, idx, rv_ta(x)))
}
pub open spec fn excl_vu(ex: Seq<Runtype>) -> bool {
    forall|x: RV| #[trigger] all_den(ex, x) ==> !visible(rv_tag(x))
}
pub open spec fn kinds_so_far(acc: Seq<Runtype>, idx: int) -> bool {
    forall|x: RV| #[trigger] any_den(acc, x) == (rv_tag(x) == SubTypeTag::TypedArray && elem_upto(all_kinds(), idx, rv_ta(x)))
}
pub broadcast proof fn lemma_all_den_one(m: Runtype, x: RV)
    ensures #[trigger] all_den(seq![m], x) == den(m, x)
{
    assert(seq![m][0] == m);
}
