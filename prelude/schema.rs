// ---- prelude/schema.rs : what a materialised Runtype denotes (C07)
// Runtype (ast/runtype.rs) cannot be imported (BTreeSet<Runtype> inside, hand-written Ord, serde):
// it is an opaque sort with an uninterpreted denotation over real values, and its constructors are
// contract-only (R5): their denotations below are ASSUMED (listed in the trusted base).
} // verus!  (opaque stand-in types, plain Rust)
#[derive(PartialEq, Eq, PartialOrd, Ord, Clone, Debug)]
pub struct Runtype { _opaque: u8 }
#[derive(Debug)]
pub struct MappingAtomicType { _opaque: u8 }
#[derive(Debug)]
pub struct ListAtomic { _opaque: u8 }
verus! {
#[verifier::external_type_specification]
#[verifier::external_body]
pub struct ExRuntype(Runtype);
#[verifier::external_type_specification]
#[verifier::external_body]
pub struct ExMappingAtomicType(MappingAtomicType);
#[verifier::external_type_specification]
#[verifier::external_body]
pub struct ExListAtomic(ListAtomic);
#[verifier::external_type_specification]
pub struct ExRuntypeConst(RuntypeConst);

// T2: the hand-written Eq/Ord on Runtype (which ignore metadata) form a lawful total order; Runtype
// values are considered up to that equality.
#[verifier::external_body]
pub proof fn axiom_runtype_cmp()
    ensures vstd::laws_cmp::obeys_cmp::<Runtype>()
{}

pub uninterp spec fn den(r: Runtype, x: RV) -> bool;

// atom tables of the context
pub uninterp spec fn mapping_defined(ctx: SemTypeContext, i: usize) -> bool;
pub uninterp spec fn list_defined(ctx: SemTypeContext, i: usize) -> bool;
pub uninterp spec fn map_defined(ctx: SemTypeContext, i: usize) -> bool;
pub uninterp spec fn set_defined(ctx: SemTypeContext, i: usize) -> bool;
pub uninterp spec fn mapping_def(ctx: SemTypeContext, i: usize) -> MappingAtomicType;
pub uninterp spec fn list_def(ctx: SemTypeContext, i: usize) -> ListAtomic;
pub uninterp spec fn map_def(ctx: SemTypeContext, i: usize) -> MappingAtomicType;
pub uninterp spec fn set_def(ctx: SemTypeContext, i: usize) -> ListAtomic;
// denotation of an atomic object / Map / list / Set type
pub uninterp spec fn mt_den(mt: MappingAtomicType, is_map: bool, x: RV) -> bool;
pub uninterp spec fn lt_den(lt: ListAtomic, is_set: bool, x: RV) -> bool;

pub open spec fn atom_defined(ctx: SemTypeContext, a: Atom) -> bool {
    match a {
        Atom::Mapping(i) => mapping_defined(ctx, i),
        Atom::List(i) => list_defined(ctx, i),
        Atom::Map(i) => map_defined(ctx, i),
        Atom::Set(i) => set_defined(ctx, i),
    }
}
pub open spec fn atom_holds(ctx: SemTypeContext, a: Atom, x: RV) -> bool {
    match a {
        Atom::Mapping(i) => mt_den(mapping_def(ctx, i), false, x),
        Atom::List(i) => lt_den(list_def(ctx, i), false, x),
        Atom::Map(i) => mt_den(map_def(ctx, i), true, x),
        Atom::Set(i) => lt_den(set_def(ctx, i), true, x),
    }
}
pub open spec fn env_of(ctx: SemTypeContext, x: RV) -> Env { |a: Atom| atom_holds(ctx, a, x) }

// R5 (contract-only): table lookups; `expect("should exist")` twice in the real bodies
impl SemTypeContext {
    #[verifier::external_body]
    pub fn get_mapping_atomic(&self, idx: usize) -> (r: Rc<MappingAtomicType>)
        requires mapping_defined(*self, idx)
        ensures *r == mapping_def(*self, idx)
    { unimplemented!() }
    #[verifier::external_body]
    pub fn get_map_atomic(&self, idx: usize) -> (r: Rc<MappingAtomicType>)
        requires map_defined(*self, idx)
        ensures *r == map_def(*self, idx)
    { unimplemented!() }
    #[verifier::external_body]
    pub fn get_list_atomic(&self, idx: usize) -> (r: Rc<ListAtomic>)
        requires list_defined(*self, idx)
        ensures *r == list_def(*self, idx)
    { unimplemented!() }
    #[verifier::external_body]
    pub fn get_set_atomic(&self, idx: usize) -> (r: Rc<ListAtomic>)
        requires set_defined(*self, idx)
        ensures *r == set_def(*self, idx)
    { unimplemented!() }
}

// R5: stand-in declarations for the schemer state. The real `SemTypeResolverContext` holds
// `&'a mut SemTypeContext` (Verus has no `&mut` fields); the extracted methods only read through it.
pub struct SemTypeResolverContext<'a>(pub &'a SemTypeContext);
pub struct SchemerContext<'a, 'b> {
    pub ctx: SemTypeResolverContext<'a>,
    pub counter: &'b usize,
}

// R10: `xs.into_iter().collect()` re-collects a collection into a Vec (same elements)
pub trait VCollect<T> {
    spec fn elems(&self) -> Set<T>;
    fn vcollect(self) -> (r: Vec<T>)
        ensures r@.to_set() == self.elems();
}
impl<T> VCollect<T> for Vec<T> {
    open spec fn elems(&self) -> Set<T> { self@.to_set() }
    #[verifier::external_body]
    fn vcollect(self) -> (r: Vec<T>) { self.into_iter().collect() }
}
impl<T> VCollect<T> for BTreeSet<T> {
    open spec fn elems(&self) -> Set<T> { self@ }
    #[verifier::external_body]
    fn vcollect(self) -> (r: Vec<T>) { self.into_iter().collect() }
}

// R5 (contract-only, ASSUMED denotations) - Runtype constructors used by the materialisation
impl Runtype {
    #[verifier::external_body]
    pub fn any_of(vs: Vec<Runtype>) -> (r: Runtype)
        ensures forall|x: RV| #[trigger] den(r, x) == (exists|m: Runtype| vs@.to_set().contains(m) && #[trigger] den(m, x))
    { unimplemented!() }
    #[verifier::external_body]
    pub fn all_of(vs: Vec<Runtype>) -> (r: Runtype)
        ensures forall|x: RV| #[trigger] den(r, x) == (forall|m: Runtype| vs@.to_set().contains(m) ==> #[trigger] den(m, x))
    { unimplemented!() }
    #[verifier::external_body]
    pub fn st_not(inner: Box<Runtype>) -> (r: Runtype)
        ensures forall|x: RV| #[trigger] den(r, x) == !den(*inner, x)
    { unimplemented!() }
}

// R5 (contract-only, ASSUMED): the per-atom schemas. They recurse through convert_to_schema and its
// Ref memo, which is NOT modelled: their result is assumed to denote the atomic type.
impl<'a, 'b> SchemerContext<'a, 'b> {
    #[verifier::external_body]
    fn mapping_atom_schema(&mut self, mt: &Rc<MappingAtomicType>) -> (r: Result<Runtype>)
        ensures final(self).ctx == old(self).ctx, r is Ok ==> forall|x: RV| #[trigger] den(r->Ok_0, x) == mt_den(**mt, false, x)
    { unimplemented!() }
    #[verifier::external_body]
    fn map_atom_schema(&mut self, mt: &Rc<MappingAtomicType>) -> (r: Result<Runtype>)
        ensures final(self).ctx == old(self).ctx, r is Ok ==> forall|x: RV| #[trigger] den(r->Ok_0, x) == mt_den(**mt, true, x)
    { unimplemented!() }
    #[verifier::external_body]
    fn list_atom_schema(&mut self, mt: &Rc<ListAtomic>) -> (r: Result<Runtype>)
        ensures final(self).ctx == old(self).ctx, r is Ok ==> forall|x: RV| #[trigger] den(r->Ok_0, x) == lt_den(**mt, false, x)
    { unimplemented!() }
    #[verifier::external_body]
    fn set_atom_schema(&mut self, mt: &Rc<ListAtomic>) -> (r: Result<Runtype>)
        ensures final(self).ctx == old(self).ctx, r is Ok ==> forall|x: RV| #[trigger] den(r->Ok_0, x) == lt_den(**mt, true, x)
    { unimplemented!() }
}

// clause vocabulary
pub open spec fn atoms_kind_ok(ctx: SemTypeContext, s: Seq<Atom>, kind: int) -> bool {
    forall|i: int| 0 <= i < s.len() ==> atom_defined(ctx, #[trigger] s[i]) && (match s[i] {
        Atom::Mapping(_) => kind == 0,
        Atom::List(_) => kind == 1,
        Atom::Map(_) => kind == 2,
        Atom::Set(_) => kind == 3,
    })
}
pub open spec fn clause_ok(ctx: SemTypeContext, c: ClauseView, kind: int) -> bool {
    atoms_kind_ok(ctx, c.0, kind) && atoms_kind_ok(ctx, c.1, kind)
}
pub open spec fn clause_holds(ctx: SemTypeContext, c: ClauseView, x: RV) -> bool {
    all_true(c.0, env_of(ctx, x)) && all_false(c.1, env_of(ctx, x))
}
