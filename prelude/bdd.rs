// ---- prelude/bdd.rs : semantic model of three-way decision diagrams (DESIGN.md section 5)

// T2: derived `Ord` on the fieldless-payload enum `Atom`: `Equal` exactly for equal atoms.
pub assume_specification[ <Atom as Ord>::cmp ](a: &Atom, b: &Atom) -> (r: Ordering)
    ensures (r == Ordering::Equal) <==> (*a == *b);

// T2: derived structural `PartialEq` on `Bdd`.
impl vstd::std_specs::cmp::PartialEqSpecImpl for Bdd {
    open spec fn obeys_eq_spec() -> bool { true }
    open spec fn eq_spec(&self, other: &Bdd) -> bool { *self == *other }
}

pub type Env = spec_fn(Atom) -> bool;

// A diagram node means:  middle  OR  (atom ? left : right)
pub open spec fn eval(b: Bdd, env: Env) -> bool
    decreases b
{
    match b {
        Bdd::True => true,
        Bdd::False => false,
        Bdd::Node { atom, left, middle, right } =>
            eval(*middle, env) || (if env(atom) { eval(*left, env) } else { eval(*right, env) }),
    }
}

pub broadcast proof fn lemma_eval_false(env: Env)
    ensures !#[trigger] eval(Bdd::False, env) {}

pub broadcast proof fn lemma_eval_true(env: Env)
    ensures #[trigger] eval(Bdd::True, env) {}

pub broadcast proof fn lemma_eval_node(atom: Atom, left: Rc<Bdd>, middle: Rc<Bdd>, right: Rc<Bdd>, env: Env)
    ensures #[trigger] eval(Bdd::Node{atom, left, middle, right}, env)
        == (eval(*middle, env) || (if env(atom) { eval(*left, env) } else { eval(*right, env) })) {}

// node count: termination measure of the four operations
pub open spec fn size(b: Bdd) -> nat
    decreases b
{
    match b {
        Bdd::True => 0,
        Bdd::False => 0,
        Bdd::Node { atom, left, middle, right } => 1 + size(*left) + size(*middle) + size(*right),
    }
}

pub broadcast proof fn lemma_size_leaf()
    ensures #[trigger] size(Bdd::False) == 0, #[trigger] size(Bdd::True) == 0 {}

pub broadcast proof fn lemma_size_node(atom: Atom, left: Rc<Bdd>, middle: Rc<Bdd>, right: Rc<Bdd>)
    ensures #[trigger] size(Bdd::Node{atom, left, middle, right}) == 1 + size(*left) + size(*middle) + size(*right) {}
