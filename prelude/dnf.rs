// ---- prelude/dnf.rs : meaning of a DNF (Vec<Conjunction>) under a truth assignment
pub open spec fn all_true(s: Seq<Atom>, env: Env) -> bool { forall|i: int| 0 <= i < s.len() ==> env(#[trigger] s[i]) }
pub open spec fn all_false(s: Seq<Atom>, env: Env) -> bool { forall|i: int| 0 <= i < s.len() ==> !env(#[trigger] s[i]) }
pub open spec fn conj_eval(c: Conjunction, env: Env) -> bool { all_true(c.positive@, env) && all_false(c.negative@, env) }
pub open spec fn dnf_eval(d: Seq<Conjunction>, env: Env) -> bool { exists|i: int| 0 <= i < d.len() && conj_eval(#[trigger] d[i], env) }

pub broadcast proof fn lemma_all_true_push(s: Seq<Atom>, a: Atom, env: Env)
    ensures #[trigger] all_true(s.push(a), env) == (all_true(s, env) && env(a))
{
    if all_true(s.push(a), env) {
        assert(s.push(a)[s.len() as int] == a);
        assert forall|i: int| 0 <= i < s.len() implies env(#[trigger] s[i]) by { assert(s.push(a)[i] == s[i]); }
    }
}
pub broadcast proof fn lemma_all_false_push(s: Seq<Atom>, a: Atom, env: Env)
    ensures #[trigger] all_false(s.push(a), env) == (all_false(s, env) && !env(a))
{
    if all_false(s.push(a), env) {
        assert(s.push(a)[s.len() as int] == a);
        assert forall|i: int| 0 <= i < s.len() implies !env(#[trigger] s[i]) by { assert(s.push(a)[i] == s[i]); }
    }
}
pub broadcast proof fn lemma_dnf_eval_push(d: Seq<Conjunction>, c: Conjunction, env: Env)
    ensures #[trigger] dnf_eval(d.push(c), env) == (dnf_eval(d, env) || conj_eval(c, env))
{
    if dnf_eval(d.push(c), env) {
        let i = choose|i: int| 0 <= i < d.push(c).len() && conj_eval(#[trigger] d.push(c)[i], env);
        if i < d.len() { assert(d.push(c)[i] == d[i]); } else { assert(d.push(c)[i] == c); }
    }
    if dnf_eval(d, env) {
        let i = choose|i: int| 0 <= i < d.len() && conj_eval(#[trigger] d[i], env);
        assert(d.push(c)[i] == d[i]);
    }
    if conj_eval(c, env) { assert(d.push(c)[d.len() as int] == c); }
}
pub broadcast proof fn lemma_dnf_eval_empty(env: Env)
    ensures !#[trigger] dnf_eval(Seq::<Conjunction>::empty(), env) {}
pub broadcast proof fn lemma_all_empty(env: Env)
    ensures #[trigger] all_true(Seq::<Atom>::empty(), env), #[trigger] all_false(Seq::<Atom>::empty(), env) {}

// prefix forms used by the loop invariants of dnf_to_bdd (no hint inside the body is needed:
// the step lemmas fire on the pair "prefix k / prefix j" with j == k + 1)
pub open spec fn all_true_upto(s: Seq<Atom>, k: int, env: Env) -> bool { forall|i: int| 0 <= i < k ==> env(#[trigger] s[i]) }
pub open spec fn all_false_upto(s: Seq<Atom>, k: int, env: Env) -> bool { forall|i: int| 0 <= i < k ==> !env(#[trigger] s[i]) }
pub open spec fn dnf_upto(d: Seq<Conjunction>, k: int, env: Env) -> bool { exists|i: int| 0 <= i < k && conj_eval(#[trigger] d[i], env) }

pub broadcast proof fn lemma_all_true_upto_step(s: Seq<Atom>, k: int, j: int, env: Env)
    requires 0 <= k < s.len(), j == k + 1
    ensures #![trigger all_true_upto(s, k, env), all_true_upto(s, j, env)]
        all_true_upto(s, j, env) == (all_true_upto(s, k, env) && env(s[k]))
{
    if all_true_upto(s, k, env) && env(s[k]) {
        assert forall|i: int| 0 <= i < j implies env(#[trigger] s[i]) by { if i < k {} else { assert(i == k); } }
    }
    if all_true_upto(s, j, env) { assert(env(s[k])); }
}
pub broadcast proof fn lemma_all_false_upto_step(s: Seq<Atom>, k: int, j: int, env: Env)
    requires 0 <= k < s.len(), j == k + 1
    ensures #![trigger all_false_upto(s, k, env), all_false_upto(s, j, env)]
        all_false_upto(s, j, env) == (all_false_upto(s, k, env) && !env(s[k]))
{
    if all_false_upto(s, k, env) && !env(s[k]) {
        assert forall|i: int| 0 <= i < j implies !env(#[trigger] s[i]) by { if i < k {} else { assert(i == k); } }
    }
    if all_false_upto(s, j, env) { assert(!env(s[k])); }
}
pub broadcast proof fn lemma_dnf_upto_step(d: Seq<Conjunction>, k: int, j: int, env: Env)
    requires 0 <= k < d.len(), j == k + 1
    ensures #![trigger dnf_upto(d, k, env), dnf_upto(d, j, env)]
        dnf_upto(d, j, env) == (dnf_upto(d, k, env) || conj_eval(d[k], env))
{
    if dnf_upto(d, j, env) {
        let i = choose|i: int| 0 <= i < j && conj_eval(#[trigger] d[i], env);
        if i < k { assert(dnf_upto(d, k, env)); } else { assert(i == k); }
    }
    if dnf_upto(d, k, env) {
        let i = choose|i: int| 0 <= i < k && conj_eval(#[trigger] d[i], env);
        assert(0 <= i < j && conj_eval(d[i], env));
    }
    if conj_eval(d[k], env) { assert(0 <= k < j && conj_eval(d[k], env)); }
}
pub broadcast proof fn lemma_upto_zero(s: Seq<Atom>, env: Env)
    ensures #[trigger] all_true_upto(s, 0, env), #[trigger] all_false_upto(s, 0, env) {}
pub broadcast proof fn lemma_dnf_upto_zero(d: Seq<Conjunction>, env: Env)
    ensures !#[trigger] dnf_upto(d, 0, env) {}
pub broadcast proof fn lemma_upto_full(s: Seq<Atom>, env: Env)
    ensures #[trigger] all_true_upto(s, s.len() as int, env) == all_true(s, env),
            #[trigger] all_false_upto(s, s.len() as int, env) == all_false(s, env) {}
pub broadcast proof fn lemma_dnf_upto_full(d: Seq<Conjunction>, env: Env)
    ensures #[trigger] dnf_upto(d, d.len() as int, env) == dnf_eval(d, env) {}

// push followed by pop restores the path (stated explicitly: leaving it to extensionality search made
// the proof of bdd_to_dnf_recursive depend on unrelated context)
pub broadcast proof fn lemma_push_then_pop<A>(s: Seq<A>, a: A)
    ensures #[trigger] s.push(a).subrange(0, s.len() as int) == s, s.push(a).drop_last() == s
{
    assert(s.push(a).subrange(0, s.len() as int) =~= s);
    assert(s.push(a).drop_last() =~= s);
}

// ---- which clauses bdd_to_dnf may emit: a clause (pair of atom sequences) is a root-to-True path of the
// diagram, extended from the path walked so far. Order-insensitive on purpose: the order in which the
// three branches are visited is not part of any property (an earlier order-exact postcondition was a
// false-alarm risk on harmless reorderings and was replaced by this one).
pub type ClauseView = (Seq<Atom>, Seq<Atom>);
pub open spec fn conj_view(c: Conjunction) -> ClauseView { (c.positive@, c.negative@) }
pub open spec fn clause_of(b: Bdd, pos: Seq<Atom>, neg: Seq<Atom>, c: ClauseView) -> bool
    decreases b
{
    match b {
        Bdd::True => c == (pos, neg),
        Bdd::False => false,
        Bdd::Node { atom, left, middle, right } =>
            clause_of(*middle, pos, neg, c) || clause_of(*left, pos.push(atom), neg, c) || clause_of(*right, pos, neg.push(atom), c),
    }
}
pub broadcast proof fn lemma_clause_of_leaf(pos: Seq<Atom>, neg: Seq<Atom>, c: ClauseView)
    ensures #[trigger] clause_of(Bdd::True, pos, neg, c) == (c == (pos, neg)), !#[trigger] clause_of(Bdd::False, pos, neg, c) {}
pub broadcast proof fn lemma_clause_of_node(atom: Atom, left: Rc<Bdd>, middle: Rc<Bdd>, right: Rc<Bdd>, pos: Seq<Atom>, neg: Seq<Atom>, c: ClauseView)
    ensures #[trigger] clause_of(Bdd::Node { atom, left, middle, right }, pos, neg, c)
        == (clause_of(*middle, pos, neg, c) || clause_of(*left, pos.push(atom), neg, c) || clause_of(*right, pos, neg.push(atom), c)) {}
// the clauses added to `acc` between two states all come from diagram b under path (pos, neg)
pub open spec fn added_from(before: Seq<Conjunction>, after: Seq<Conjunction>, b: Bdd, pos: Seq<Atom>, neg: Seq<Atom>) -> bool {
    forall|k: int| before.len() <= k < after.len() ==> clause_of(b, pos, neg, conj_view(#[trigger] after[k]))
}
// the clause c occurs in d at or after position `from`
pub open spec fn has_clause(d: Seq<Conjunction>, from: int, c: ClauseView) -> bool {
    exists|k: int| 0 <= k && from <= k < d.len() && conj_view(#[trigger] d[k]) == c
}
pub broadcast proof fn lemma_has_clause_grows(a: Seq<Conjunction>, b: Seq<Conjunction>, from: int, c: ClauseView)
    requires #[trigger] a.is_prefix_of(b), #[trigger] has_clause(a, from, c)
    ensures has_clause(b, from, c)
{
    let k = choose|k: int| 0 <= k && from <= k < a.len() && conj_view(#[trigger] a[k]) == c;
    lemma_prefix_index(a, b, k);
    assert(a.len() <= b.len());
    assert(0 <= k && from <= k < b.len() && conj_view(b[k]) == c);
}
pub broadcast proof fn lemma_has_clause_from(d: Seq<Conjunction>, from: int, from2: int, c: ClauseView)
    requires #[trigger] has_clause(d, from, c), from2 <= from
    ensures #[trigger] has_clause(d, from2, c)
{
    let k = choose|k: int| 0 <= k && from <= k < d.len() && conj_view(#[trigger] d[k]) == c;
    assert(0 <= k && from2 <= k < d.len() && conj_view(d[k]) == c);
}
pub broadcast proof fn lemma_has_clause_last(d: Seq<Conjunction>, x: Conjunction, from: int, c: ClauseView)
    requires from <= d.len(), conj_view(x) == c
    ensures #[trigger] has_clause(d.push(x), from, c)
{
    assert(conj_view(d.push(x)[d.len() as int]) == c);
}
pub broadcast proof fn lemma_prefix_index<A>(a: Seq<A>, b: Seq<A>, k: int)
    requires #[trigger] a.is_prefix_of(b), 0 <= k < a.len()
    ensures a[k] == #[trigger] b[k]
{
    assert(a[k] == b.subrange(0, a.len() as int)[k]);
}
pub broadcast proof fn lemma_seq_add_assoc<A>(a: Seq<A>, b: Seq<A>, c: Seq<A>)
    ensures #[trigger] ((a + b) + c) == a + (b + c), a + Seq::<A>::empty() == a
{
    assert(((a + b) + c) =~= a + (b + c));
    assert(a + Seq::<A>::empty() =~= a);
}
