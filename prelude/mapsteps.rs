// ---- prelude/mapsteps.rs : the small readers of an object atom that `check_mapping_empty` is built from
// (mapping.rs:268-331), on the real `MappingAtomicType`
// what the positive side ("exact") and the negative side ("open") read off an atom's index signature
pub open spec fn never_ty(t: SemType) -> bool { t.all == 0 && t.subtype_data@.len() == 0 }
pub open spec fn unknown_ty(t: SemType) -> bool { t.all == VAL && t.subtype_data@.len() == 0 }
pub open spec fn only_tag(t: SemType, tag: SubTypeTag) -> bool { wf(t) && flat(t) && forall|v: Val| #[trigger] mem(t, v) == (tag_of(v) == tag) }
pub open spec fn key_exact_is(m: MappingAtomicType, t: SemType) -> bool {
    match m.indexed_properties { Some(ip) => t == *ip.key, None => never_ty(t) }
}
pub open spec fn key_open_is(m: MappingAtomicType, t: SemType) -> bool {
    match m.indexed_properties { Some(ip) => t == *ip.key, None => only_tag(t, SubTypeTag::String) }
}
pub open spec fn value_exact_is(m: MappingAtomicType, t: SemType) -> bool {
    match m.indexed_properties { Some(ip) => t == *ip.value, None => only_tag(t, SubTypeTag::OptionalProp) }
}
pub open spec fn value_open_is(m: MappingAtomicType, t: SemType) -> bool {
    match m.indexed_properties { Some(ip) => t == *ip.value, None => unknown_ty(t) }
}
// the constraint a negative atom's index signature puts on the keys the positive atom's signature covers:
// if every key of the positive signature is a key of the negative one (the difference pos_key \ neg_key - in this
// order - is empty), the negative signature's value type made optional; otherwise none
pub open spec fn optional_of(nv: SemType, r: SemType) -> bool {
    wf(nv) && flat(nv) ==> forall|v: Val| #[trigger] mem(r, v) == (mem(nv, v) || tag_of(v) == SubTypeTag::OptionalProp)
}
pub open spec fn effective_index_value(pos: MappingAtomicType, neg: MappingAtomicType, defs: Defs, r: SemType) -> bool {
    exists|pk: SemType, nk: SemType, d: SemType|
        key_exact_is(pos, pk) && key_open_is(neg, nk) && #[trigger] diff_res(pk, nk, d)
        && (if sem_empty(d, defs) { exists|nv: SemType| #[trigger] value_open_is(neg, nv) && optional_of(nv, r) } else { unknown_ty(r) })
}
pub open spec fn ip_in_val(m: MappingAtomicType) -> bool {
    match m.indexed_properties { Some(ip) => all_in_val(ip.key.all), None => true }
}

// ---- the per-KEY readers `get_value_exact` / `get_value_open` (mapping.rs:216-266)
// T2 (assumed): `String: Borrow<str>` borrows the same characters in the same order - what vstd's specification of
// `BTreeMap::get` by a borrowed key asks of the pair (String, str) and leaves open (vstd has it for Box<Q> only)
#[verifier::external_body]
pub proof fn axiom_string_borrow_str<V>(m: Map<String, V>, k: &str)
    ensures vstd::std_specs::btree::borrowed_key_ordering_matches::<String, str>(),
      vstd::std_specs::btree::contains_borrowed_key(m, k) == (exists|s: String| #[trigger] m.contains_key(s) && s@ == k@),
      forall|s: String| #[trigger] m.contains_key(s) && s@ == k@ ==> vstd::std_specs::btree::maps_borrowed_key_to_value(m, k, m[s]),
      forall|v: V| #[trigger] vstd::std_specs::btree::maps_borrowed_key_to_value(m, k, v) ==> (exists|s: String| #[trigger] m.contains_key(s) && s@ == k@ && m[s] == v),
{}
// R5 (contract-only): `is_finite_string_set` (nested loops over template-literal items, `iter().all(fn item)`) -
// modelled as an uninterpreted function of the key type
pub uninterp spec fn finite_string_set(t: SemType) -> bool;
#[verifier::external_body]
fn is_finite_string_set(ty: &Rc<SemType>) -> (r: bool)
    ensures r == finite_string_set(**ty)
{ unimplemented!() }
// the string-literal type of the key `k`
pub open spec fn key_lit(lit: StringLitOrFormat, k: Seq<char>) -> bool {
    match lit {
        StringLitOrFormat::Tpl(t) => t.0@.len() == 1 && (match t.0@[0] { TplLitTypeItem::StringConst(s) => s@ == k, _ => false }),
        _ => false,
    }
}
pub open spec fn key_type(t: SemType, k: Seq<char>) -> bool {
    wf(t) && flat(t) && exists|lit: StringLitOrFormat| #[trigger] str_lit_type(t, lit) && key_lit(lit, k)
}
pub open spec fn declares(m: MappingAtomicType, k: Seq<char>) -> bool { exists|s: String| #[trigger] m.vs@.contains_key(s) && s@ == k }
// what an atom says about the key `k`: the declared property's type; else, when the atom has an index signature whose
// key type covers the literal type of `k` ({k} \ key - in this order - is empty), the signature's value type (as it is
// for a finite key set, made optional otherwise); else the default `dflt` of the side that asks
pub open spec fn value_at(m: MappingAtomicType, k: Seq<char>, defs: Defs, r: SemType, exact: bool) -> bool {
    if declares(m, k) { exists|s: String| #[trigger] m.vs@.contains_key(s) && s@ == k && r == *m.vs@[s] }
    else {
        let dflt = if exact { only_tag(r, SubTypeTag::OptionalProp) } else { unknown_ty(r) };
        match m.indexed_properties {
            Some(ip) => exists|kt: SemType, d: SemType| key_type(kt, k) && #[trigger] diff_res(kt, *ip.key, d)
                && (if sem_empty(d, defs) { if finite_string_set(*ip.key) { r == *ip.value } else { optional_of(*ip.value, r) } } else { dflt }),
            None => dflt,
        }
    }
}

// ---- `intersect_mapping` (mapping.rs:13-63): the index-signature part of the meet of two object atoms
// `IndexedPropertiesAtomic` is the real definition, placed outside verus! (take-ext): this Verus cannot attach a
// specification to a derived non-Copy Clone declared inside verus!. T2: the derived Clone returns an equal value
#[verifier::external_type_specification]
pub struct ExIndexedPropertiesAtomic(IndexedPropertiesAtomic);
pub assume_specification[ <IndexedPropertiesAtomic as Clone>::clone ](x: &IndexedPropertiesAtomic) -> (r: IndexedPropertiesAtomic)
    ensures r == *x;
// R26 / R27: the union of two key sets and its iteration; no contract - nothing is claimed about the per-key part
#[verifier::external_body]
fn vset_union<'a, T: Ord>(a: &'a BTreeSet<T>, b: &'a BTreeSet<T>) -> (r: BTreeSet<&'a T>)
{ a.union(b).collect::<BTreeSet<_>>() }
#[verifier::external_body]
fn vset_to_vec<T: Ord>(s: BTreeSet<T>) -> (r: Vec<T>)
{ s.into_iter().collect() }
pub open spec fn inter_res(a: SemType, b: SemType, d: SemType) -> bool {
    (all_in_val(a.all) ==> all_in_val(d.all))
    && (wf(a) && wf(b) && flat(a) && flat(b) ==> wf(d) && flat(d) && forall|v: Val| #[trigger] mem(d, v) == (mem(a, v) && mem(b, v)))
}
// two signatures meet in the first one's key type (the code requires the two key types to be the same type, else Err) and
// the intersection of the value types; a single signature is kept as it is (C05-20, C05-32: it was lost); none gives none
pub open spec fn ip_meet(a: Option<IndexedPropertiesAtomic>, b: Option<IndexedPropertiesAtomic>, r: Option<IndexedPropertiesAtomic>) -> bool {
    match (a, b) {
        (Some(p1), Some(p2)) => r is Some && r->0.key == p1.key && inter_res(*p1.value, *p2.value, *r->0.value),
        (None, Some(p)) => r == Some(p),
        (Some(p), None) => r == Some(p),
        (None, None) => r is None,
    }
}
pub open spec fn keys_same(a: Option<IndexedPropertiesAtomic>, b: Option<IndexedPropertiesAtomic>, defs: Defs) -> bool {
    match (a, b) {
        (Some(p1), Some(p2)) => exists|d1: SemType, d2: SemType| diff_res(*p1.key, *p2.key, d1) && diff_res(*p2.key, *p1.key, d2)
            && #[trigger] sem_empty(d1, defs) && #[trigger] sem_empty(d2, defs),
        _ => true,
    }
}
// R10 here: `acc.into_iter().collect()` collects the vector of (key, type) pairs into the atom's map; no contract (per-key part)
pub trait VCollectMap<K, V> {
    fn vcollect(self) -> (r: BTreeMap<K, V>);
}
impl<K: Ord, V> VCollectMap<K, V> for Vec<(K, V)> {
    #[verifier::external_body]
    fn vcollect(self) -> (r: BTreeMap<K, V>) { self.into_iter().collect() }
}
