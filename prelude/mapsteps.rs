// ---- prelude/mapsteps.rs : the small readers of an object atom that `check_mapping_empty` is built from
// (mapping.rs:268-331), on the real `MappingAtomicType`
// what the positive side ("exact") and the negative side ("open") read off an atom's index signature
pub open spec fn never_ty(t: SemType) -> bool { t.all == 0 && t.subtype_data@.len() == 0 }
pub open spec fn unknown_ty(t: SemType) -> bool { t.all == VAL && t.subtype_data@.len() == 0 }
pub open spec fn only_tag(t: SemType, tag: SubTypeTag) -> bool { wf(t) && flat(t) && forall|v: Val| #[trigger] mem(t, v) == (tag_of(v) == tag) }
pub open spec fn key_exact_is(m: MappingAtomicType, t: SemType) -> bool {
    match m.indexed_properties { Some(ip) => t == *ip.key, None => never_ty(t) }
}
pub open spec fn key_open_is(m: MappingAtomicType, t: SemType) -> bool {
    match m.indexed_properties { Some(ip) => t == *ip.key, None => only_tag(t, SubTypeTag::String) }
}
pub open spec fn value_exact_is(m: MappingAtomicType, t: SemType) -> bool {
    match m.indexed_properties { Some(ip) => t == *ip.value, None => only_tag(t, SubTypeTag::OptionalProp) }
}
pub open spec fn value_open_is(m: MappingAtomicType, t: SemType) -> bool {
    match m.indexed_properties { Some(ip) => t == *ip.value, None => unknown_ty(t) }
}
// the constraint a negative atom's index signature puts on the keys the positive atom's signature covers:
// if every key of the positive signature is a key of the negative one (the difference pos_key \ neg_key - in this
// order - is empty), the negative signature's value type made optional; otherwise none
pub open spec fn optional_of(nv: SemType, r: SemType) -> bool {
    wf(nv) && flat(nv) ==> forall|v: Val| #[trigger] mem(r, v) == (mem(nv, v) || tag_of(v) == SubTypeTag::OptionalProp)
}
pub open spec fn effective_index_value(pos: MappingAtomicType, neg: MappingAtomicType, defs: Defs, r: SemType) -> bool {
    exists|pk: SemType, nk: SemType, d: SemType|
        key_exact_is(pos, pk) && key_open_is(neg, nk) && #[trigger] diff_res(pk, nk, d)
        && (if sem_empty(d, defs) { exists|nv: SemType| #[trigger] value_open_is(neg, nv) && optional_of(nv, r) } else { unknown_ty(r) })
}
pub open spec fn ip_in_val(m: MappingAtomicType) -> bool {
    match m.indexed_properties { Some(ip) => all_in_val(ip.key.all), None => true }
}

// ---- the per-KEY readers `get_value_exact` / `get_value_open` (mapping.rs:216-266)
// T2 (assumed): `String: Borrow<str>` borrows the same characters in the same order - what vstd's specification of
// `BTreeMap::get` by a borrowed key asks of the pair (String, str) and leaves open (vstd has it for Box<Q> only)
#[verifier::external_body]
pub proof fn axiom_string_borrow_str<V>(m: Map<String, V>, k: &str)
    ensures vstd::std_specs::btree::borrowed_key_ordering_matches::<String, str>(),
      vstd::std_specs::btree::contains_borrowed_key(m, k) == (exists|s: String| #[trigger] m.contains_key(s) && s@ == k@),
      forall|s: String| #[trigger] m.contains_key(s) && s@ == k@ ==> vstd::std_specs::btree::maps_borrowed_key_to_value(m, k, m[s]),
      forall|v: V| #[trigger] vstd::std_specs::btree::maps_borrowed_key_to_value(m, k, v) ==> (exists|s: String| #[trigger] m.contains_key(s) && s@ == k@ && m[s] == v),
{}
// R5 (contract-only): `is_finite_string_set` (nested loops over template-literal items, `iter().all(fn item)`) -
// modelled as an uninterpreted function of the key type
pub uninterp spec fn finite_string_set(t: SemType) -> bool;
#[verifier::external_body]
fn is_finite_string_set(ty: &Rc<SemType>) -> (r: bool)
    ensures r == finite_string_set(**ty)
{ unimplemented!() }
// the string-literal type of the key `k`
pub open spec fn key_lit(lit: StringLitOrFormat, k: Seq<char>) -> bool {
    match lit {
        StringLitOrFormat::Tpl(t) => t.0@.len() == 1 && (match t.0@[0] { TplLitTypeItem::StringConst(s) => s@ == k, _ => false }),
        _ => false,
    }
}
pub open spec fn key_type(t: SemType, k: Seq<char>) -> bool {
    wf(t) && flat(t) && exists|lit: StringLitOrFormat| #[trigger] str_lit_type(t, lit) && key_lit(lit, k)
}
pub open spec fn declares(m: MappingAtomicType, k: Seq<char>) -> bool { exists|s: String| #[trigger] m.vs@.contains_key(s) && s@ == k }
// what an atom says about the key `k`: the declared property's type; else, when the atom has an index signature whose
// key type covers the literal type of `k` ({k} \ key - in this order - is empty), the signature's value type (as it is
// for a finite key set, made optional otherwise); else the default `dflt` of the side that asks
pub open spec fn value_at(m: MappingAtomicType, k: Seq<char>, defs: Defs, r: SemType, exact: bool) -> bool {
    if declares(m, k) { exists|s: String| #[trigger] m.vs@.contains_key(s) && s@ == k && r == *m.vs@[s] }
    else {
        let dflt = if exact { only_tag(r, SubTypeTag::OptionalProp) } else { unknown_ty(r) };
        match m.indexed_properties {
            Some(ip) => exists|kt: SemType, d: SemType| key_type(kt, k) && #[trigger] diff_res(kt, *ip.key, d)
                && (if sem_empty(d, defs) { if finite_string_set(*ip.key) { r == *ip.value } else { optional_of(*ip.value, r) } } else { dflt }),
            None => dflt,
        }
    }
}
