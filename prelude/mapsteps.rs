// ---- prelude/mapsteps.rs : the small readers of an object atom that `check_mapping_empty` is built from
// (mapping.rs:268-331), on the real `MappingAtomicType`
// what the positive side ("exact") and the negative side ("open") read off an atom's index signature
pub open spec fn never_ty(t: SemType) -> bool { t.all == 0 && t.subtype_data@.len() == 0 }
pub open spec fn unknown_ty(t: SemType) -> bool { t.all == VAL && t.subtype_data@.len() == 0 }
pub open spec fn only_tag(t: SemType, tag: SubTypeTag) -> bool { wf(t) && flat(t) && forall|v: Val| #[trigger] mem(t, v) == (tag_of(v) == tag) }
pub open spec fn key_exact_is(m: MappingAtomicType, t: SemType) -> bool {
    match m.indexed_properties { Some(ip) => t == *ip.key, None => never_ty(t) }
}
pub open spec fn key_open_is(m: MappingAtomicType, t: SemType) -> bool {
    match m.indexed_properties { Some(ip) => t == *ip.key, None => only_tag(t, SubTypeTag::String) }
}
pub open spec fn value_exact_is(m: MappingAtomicType, t: SemType) -> bool {
    match m.indexed_properties { Some(ip) => t == *ip.value, None => only_tag(t, SubTypeTag::OptionalProp) }
}
pub open spec fn value_open_is(m: MappingAtomicType, t: SemType) -> bool {
    match m.indexed_properties { Some(ip) => t == *ip.value, None => unknown_ty(t) }
}
// the constraint a negative atom's index signature puts on the keys the positive atom's signature covers:
// if every key of the positive signature is a key of the negative one (the difference pos_key \ neg_key - in this
// order - is empty), the negative signature's value type made optional; otherwise none
pub open spec fn optional_of(nv: SemType, r: SemType) -> bool {
    wf(nv) && flat(nv) ==> forall|v: Val| #[trigger] mem(r, v) == (mem(nv, v) || tag_of(v) == SubTypeTag::OptionalProp)
}
pub open spec fn effective_index_value(pos: MappingAtomicType, neg: MappingAtomicType, defs: Defs, r: SemType) -> bool {
    exists|pk: SemType, nk: SemType, d: SemType|
        key_exact_is(pos, pk) && key_open_is(neg, nk) && #[trigger] diff_res(pk, nk, d)
        && (if sem_empty(d, defs) { exists|nv: SemType| #[trigger] value_open_is(neg, nv) && optional_of(nv, r) } else { unknown_ty(r) })
}
pub open spec fn ip_in_val(m: MappingAtomicType) -> bool {
    match m.indexed_properties { Some(ip) => all_in_val(ip.key.all), None => true }
}
