// ---- prelude/subtype.rs : values, tags and membership for the per-tag "proper subtypes"

// The literal payload types are real definitions (extracted below, outside verus!); the verifier
// sees them as opaque sorts with structural (uninterpreted) equality.
#[verifier::external_type_specification]
#[verifier::external_body]
pub struct ExN(N);
#[verifier::external_type_specification]
pub struct ExCustomFormat(CustomFormat);
#[verifier::external_type_specification]
pub struct ExTplLitType(TplLitType);
#[verifier::external_type_specification]
#[verifier::accept_recursive_types]
pub struct ExTplLitTypeItem(TplLitTypeItem);

// Transparent external datatypes (real definitions below, outside verus!): needed because this
// Verus cannot attach a spec to a *derived* non-Copy Clone impl inside verus!.
#[verifier::external_type_specification]
pub struct ExNumberRepresentationOrFormat(NumberRepresentationOrFormat);
#[verifier::external_type_specification]
pub struct ExStringLitOrFormat(StringLitOrFormat);
// T2: derived Clone returns an equal value.
pub assume_specification[ <NumberRepresentationOrFormat as Clone>::clone ](x: &NumberRepresentationOrFormat) -> (r: NumberRepresentationOrFormat)
    ensures r == *x;
pub assume_specification[ <StringLitOrFormat as Clone>::clone ](x: &StringLitOrFormat) -> (r: StringLitOrFormat)
    ensures r == *x;

// R5 (contract-only): the context is only threaded through `is_empty_status`.
#[verifier::external_body]
pub struct SemTypeContext { _p: core::marker::PhantomData<()> }

// "format-free fragment" of C06: literals on which SubtypeCheck::is_subtype is plain equality.
pub trait FlatLit {
    spec fn flat_lit(&self) -> bool;
}
// a template-literal type that is a single string constant
pub open spec fn tpl_is_single_const(t: TplLitType) -> bool {
    t.0@.len() == 1 && (match t.0@[0] { TplLitTypeItem::StringConst(_) => true, _ => false })
}
impl FlatLit for NumberRepresentationOrFormat {
    open spec fn flat_lit(&self) -> bool { match *self { NumberRepresentationOrFormat::Lit(_) => true, _ => false } }
}
impl FlatLit for StringLitOrFormat {
    open spec fn flat_lit(&self) -> bool { match *self { StringLitOrFormat::Tpl(t) => tpl_is_single_const(t), _ => false } }
}
impl FlatLit for TypedArrayKind {
    open spec fn flat_lit(&self) -> bool { true }
}
impl FlatLit for VoidUndefinedSubtype {
    // Undefined <: Void makes this literal algebra a down-set algebra, which C06 does not describe:
    // nothing is claimed (true or false) about membership for this tag.
    open spec fn flat_lit(&self) -> bool { false }
}
pub open spec fn all_flat<K: FlatLit>(s: Seq<K>) -> bool { forall|i: int| 0 <= i < s.len() ==> (#[trigger] s[i]).flat_lit() }

// R5 (contract-only, ASSUMED; bounded stand-in: unit U5 / Kani): the three literal-list operations.
// Verus rejects their bodies (`continue 'outer` in `for`, `for &idx in ..rev()`).
#[verifier::external_body]
fn sub_vec_union<K: SubtypeCheck + Clone + Ord + FlatLit>(v1: &[K], v2: &[K]) -> (r: Result<Vec<K>>)
    ensures all_flat(v1@) && all_flat(v2@) ==> r is Ok,
            r is Ok && all_flat(v1@) && all_flat(v2@) ==> all_flat(r->Ok_0@)
                && forall|x: K| #![trigger r->Ok_0@.contains(x)] #![trigger v1@.contains(x)] #![trigger v2@.contains(x)] r->Ok_0@.contains(x) == (v1@.contains(x) || v2@.contains(x)),
{ unimplemented!() }
#[verifier::external_body]
fn sub_vec_intersect<K: SubtypeCheck + Clone + PartialEq + Ord + FlatLit>(v1: &[K], v2: &[K]) -> (r: Result<Vec<K>>)
    ensures all_flat(v1@) && all_flat(v2@) ==> r is Ok,
            r is Ok && all_flat(v1@) && all_flat(v2@) ==> all_flat(r->Ok_0@)
                && forall|x: K| #![trigger r->Ok_0@.contains(x)] #![trigger v1@.contains(x)] #![trigger v2@.contains(x)] r->Ok_0@.contains(x) == (v1@.contains(x) && v2@.contains(x)),
{ unimplemented!() }
#[verifier::external_body]
fn sub_vec_diff<K: SubtypeCheck + Clone + Ord + FlatLit>(v1: &[K], v2: &[K]) -> (r: Result<Vec<K>>)
    ensures all_flat(v1@) && all_flat(v2@) ==> r is Ok,
            r is Ok && all_flat(v1@) && all_flat(v2@) ==> all_flat(r->Ok_0@)
                && forall|x: K| #![trigger r->Ok_0@.contains(x)] #![trigger v1@.contains(x)] #![trigger v2@.contains(x)] r->Ok_0@.contains(x) == (v1@.contains(x) && !v2@.contains(x)),
{ unimplemented!() }

// T2: derived PartialEq on the literal payload types is structural equality
impl vstd::std_specs::cmp::PartialEqSpecImpl for NumberRepresentationOrFormat {
    open spec fn obeys_eq_spec() -> bool { true }
    open spec fn eq_spec(&self, other: &NumberRepresentationOrFormat) -> bool { *self == *other }
}
impl vstd::std_specs::cmp::PartialEqSpecImpl for StringLitOrFormat {
    open spec fn obeys_eq_spec() -> bool { true }
    open spec fn eq_spec(&self, other: &StringLitOrFormat) -> bool { *self == *other }
}
impl vstd::std_specs::cmp::PartialEqSpecImpl for TypedArrayKind {
    open spec fn obeys_eq_spec() -> bool { true }
    open spec fn eq_spec(&self, other: &TypedArrayKind) -> bool { *self == *other }
}
impl vstd::std_specs::cmp::PartialEqSpecImpl for VoidUndefinedSubtype {
    open spec fn obeys_eq_spec() -> bool { true }
    open spec fn eq_spec(&self, other: &VoidUndefinedSubtype) -> bool { *self == *other }
}
pub assume_specification[ <NumberRepresentationOrFormat as PartialEq>::eq ](a: &NumberRepresentationOrFormat, b: &NumberRepresentationOrFormat) -> (r: bool)
    ensures r == (*a == *b);
pub assume_specification[ <StringLitOrFormat as PartialEq>::eq ](a: &StringLitOrFormat, b: &StringLitOrFormat) -> (r: bool)
    ensures r == (*a == *b);
// T2 (structural equality of Rust values): template literals with the same items are equal
#[verifier::external_body]
pub broadcast proof fn axiom_tpl_ext(a: TplLitType, b: TplLitType)
    requires #[trigger] a.0@ =~= #[trigger] b.0@
    ensures a == b
{}
// R5 (contract-only, ASSUMED): Verus has no slice patterns (`([a], [b]) => Ok(a == b)`)
impl TplLitType {
    #[verifier::external_body]
    fn is_subtype(&self, other: &TplLitType) -> (r: Result<bool>)
        ensures self.0@.len() == 1 && other.0@.len() == 1 ==> r is Ok && r->Ok_0 == (self.0@[0] == other.0@[0])
    { unimplemented!() }
}
// R5 (declaration-only): subset test on format names; formats are outside the format-free fragment
impl CustomFormat {
    #[verifier::external_body]
    fn is_subtype(&self, other: &CustomFormat) -> bool { unimplemented!() }
}

// ---- values (ghost). A structured value (object, list, Map, Set) is abstracted by the set of
// atoms it belongs to (T6 in DESIGN.md: all assignments over-approximate all values).
pub ghost enum Val {
    Bool(bool),
    Num(NumberRepresentationOrFormat),
    Str(StringLitOrFormat),
    Null,
    OptionalProp,
    BigInt,
    Date,
    VU(VoidUndefinedSubtype),
    TA(TypedArrayKind),
    Mapping(Env),
    List(Env),
    Map(Env),
    Set(Env),
}

pub open spec fn tag_of(v: Val) -> SubTypeTag {
    match v {
        Val::Bool(_) => SubTypeTag::Boolean,
        Val::Num(_) => SubTypeTag::Number,
        Val::Str(_) => SubTypeTag::String,
        Val::Null => SubTypeTag::Null,
        Val::OptionalProp => SubTypeTag::OptionalProp,
        Val::BigInt => SubTypeTag::BigInt,
        Val::Date => SubTypeTag::Date,
        Val::VU(_) => SubTypeTag::VoidUndefined,
        Val::TA(_) => SubTypeTag::TypedArray,
        Val::Mapping(_) => SubTypeTag::Mapping,
        Val::List(_) => SubTypeTag::List,
        Val::Map(_) => SubTypeTag::Map,
        Val::Set(_) => SubTypeTag::Set,
    }
}

pub open spec fn ptag(p: ProperSubtype) -> SubTypeTag {
    match p {
        ProperSubtype::Boolean(_) => SubTypeTag::Boolean,
        ProperSubtype::Number { .. } => SubTypeTag::Number,
        ProperSubtype::String { .. } => SubTypeTag::String,
        ProperSubtype::Mapping(_) => SubTypeTag::Mapping,
        ProperSubtype::List(_) => SubTypeTag::List,
        ProperSubtype::VoidUndefined { .. } => SubTypeTag::VoidUndefined,
        ProperSubtype::TypedArray { .. } => SubTypeTag::TypedArray,
        ProperSubtype::Map(_) => SubTypeTag::Map,
        ProperSubtype::Set(_) => SubTypeTag::Set,
    }
}

pub open spec fn code_of(t: SubTypeTag) -> u32 {
    match t {
        SubTypeTag::Boolean => 2u32,
        SubTypeTag::Number => 4u32,
        SubTypeTag::String => 8u32,
        SubTypeTag::Null => 16u32,
        SubTypeTag::Mapping => 32u32,
        SubTypeTag::OptionalProp => 64u32,
        SubTypeTag::List => 128u32,
        SubTypeTag::BigInt => 256u32,
        SubTypeTag::Date => 512u32,
        SubTypeTag::VoidUndefined => 1024u32,
        SubTypeTag::TypedArray => 2048u32,
        SubTypeTag::Map => 4096u32,
        SubTypeTag::Set => 8192u32,
    }
}

// membership of a value in a proper subtype (only meaningful for a value of the same tag)
pub open spec fn mem_proper(p: ProperSubtype, v: Val) -> bool {
    match (p, v) {
        (ProperSubtype::Boolean(b), Val::Bool(x)) => x == b,
        (ProperSubtype::Number { allowed, values }, Val::Num(n)) => allowed == values@.contains(n),
        (ProperSubtype::String { allowed, values }, Val::Str(s)) => allowed == values@.contains(s),
        (ProperSubtype::VoidUndefined { allowed, values }, Val::VU(x)) => allowed == values@.contains(x),
        (ProperSubtype::TypedArray { allowed, values }, Val::TA(k)) => allowed == values@.contains(k),
        (ProperSubtype::Mapping(bdd), Val::Mapping(env)) => eval(*bdd, env),
        (ProperSubtype::List(bdd), Val::List(env)) => eval(*bdd, env),
        (ProperSubtype::Map(bdd), Val::Map(env)) => eval(*bdd, env),
        (ProperSubtype::Set(bdd), Val::Set(env)) => eval(*bdd, env),
        _ => false,
    }
}

pub open spec fn sub_tag(s: SubType) -> SubTypeTag {
    match s {
        SubType::False(t) => t,
        SubType::True(t) => t,
        SubType::Proper(p) => ptag(*p),
    }
}

pub open spec fn mem_sub(s: SubType, v: Val) -> bool {
    match s {
        SubType::False(_) => false,
        SubType::True(t) => tag_of(v) == t,
        SubType::Proper(p) => mem_proper(*p, v),
    }
}

// the format-free fragment, per proper subtype
pub open spec fn flat_p(p: ProperSubtype) -> bool {
    match p {
        ProperSubtype::Number { allowed, values } => all_flat(values@),
        ProperSubtype::String { allowed, values } => all_flat(values@),
        ProperSubtype::TypedArray { allowed, values } => all_flat(values@),
        ProperSubtype::VoidUndefined { allowed, values } => false,
        _ => true,
    }
}
pub open spec fn flat_sub(s: SubType) -> bool {
    match s {
        SubType::Proper(p) => flat_p(*p),
        _ => true,
    }
}

// a recorded proper subtype of a literal kind lists at least one literal (else it would be False/True)
pub open spec fn nontrivial_p(p: ProperSubtype) -> bool {
    match p {
        ProperSubtype::Number { allowed, values } => values@.len() > 0,
        ProperSubtype::String { allowed, values } => values@.len() > 0,
        ProperSubtype::VoidUndefined { allowed, values } => values@.len() > 0,
        ProperSubtype::TypedArray { allowed, values } => values@.len() > 0,
        _ => true,
    }
}
pub open spec fn sub_nontrivial(s: SubType) -> bool {
    match s {
        SubType::Proper(p) => nontrivial_p(*p),
        _ => true,
    }
}
pub broadcast proof fn lemma_flat_first<K: FlatLit>(s: Seq<K>)
    ensures #[trigger] all_flat(s) ==> (s.len() > 0 ==> s.contains(s[0]))
{
    if s.len() > 0 { assert(s[0] == s[0]); }
}

// ---------------------------------------------------------------- emptiness of the structured kinds
// Decided by list_is_empty / dnf_mapping_is_empty / dnf_map_is_empty (bdd.rs, dnf.rs, mapping.rs),
// which are NOT verified here: ASSUMED (this is the unproved part of C05). They are modelled as
// functions of the diagram and of the atom tables of the context ("Defs"), which they leave unchanged;
// that the memo tables do not influence the answer is part of the assumption.
pub ghost struct Defs { pub id: int }
pub uninterp spec fn ctx_defs(ctx: SemTypeContext) -> Defs;
pub uninterp spec fn list_empty(b: Bdd, defs: Defs) -> bool;
pub uninterp spec fn mapping_empty(b: Bdd, defs: Defs) -> bool;
pub uninterp spec fn map_empty(b: Bdd, defs: Defs) -> bool;

#[verifier::external_body]
fn dnf_mapping_is_empty(bdd: &Rc<Bdd>, ctx: &mut SemTypeContext) -> (r: Result<IsEmptyStatus>)
    ensures ctx_defs(*final(ctx)) == ctx_defs(*old(ctx)),
            r is Ok ==> (r->Ok_0 == IsEmptyStatus::IsEmpty) == mapping_empty(**bdd, ctx_defs(*old(ctx))),
{ unimplemented!() }
#[verifier::external_body]
fn dnf_map_is_empty(bdd: &Rc<Bdd>, ctx: &mut SemTypeContext) -> (r: Result<IsEmptyStatus>)
    ensures ctx_defs(*final(ctx)) == ctx_defs(*old(ctx)),
            r is Ok ==> (r->Ok_0 == IsEmptyStatus::IsEmpty) == map_empty(**bdd, ctx_defs(*old(ctx))),
{ unimplemented!() }
#[verifier::external_body]
fn list_is_empty(bdd: &Rc<Bdd>, builder: &mut SemTypeContext) -> (r: Result<IsEmptyStatus>)
    ensures ctx_defs(*final(builder)) == ctx_defs(*old(builder)),
            r is Ok ==> (r->Ok_0 == IsEmptyStatus::IsEmpty) == list_empty(**bdd, ctx_defs(*old(builder))),
{ unimplemented!() }

pub open spec fn proper_empty(p: ProperSubtype, defs: Defs) -> bool {
    match p {
        ProperSubtype::Mapping(b) => mapping_empty(*b, defs),
        ProperSubtype::List(b) => list_empty(*b, defs),
        ProperSubtype::Map(b) => map_empty(*b, defs),
        ProperSubtype::Set(b) => list_empty(*b, defs),
        _ => false,
    }
}

pub open spec fn all_tags() -> Seq<SubTypeTag> {
    seq![SubTypeTag::String, SubTypeTag::Boolean, SubTypeTag::Number, SubTypeTag::OptionalProp, SubTypeTag::Null,
         SubTypeTag::Mapping, SubTypeTag::List, SubTypeTag::BigInt, SubTypeTag::Date, SubTypeTag::VoidUndefined,
         SubTypeTag::TypedArray, SubTypeTag::Map, SubTypeTag::Set]
}
