// ---- prelude/subtype.rs : values, tags and membership for the per-tag "proper subtypes"

// The literal payload types are real definitions (extracted below, outside verus!); the verifier
// sees them as opaque sorts with structural (uninterpreted) equality.
#[verifier::external_type_specification]
#[verifier::external_body]
pub struct ExN(N);
#[verifier::external_type_specification]
pub struct ExCustomFormat(CustomFormat);
#[verifier::external_type_specification]
pub struct ExTplLitType(TplLitType);
#[verifier::external_type_specification]
#[verifier::accept_recursive_types]
pub struct ExTplLitTypeItem(TplLitTypeItem);

// Transparent external datatypes (real definitions below, outside verus!): needed because this
// Verus cannot attach a spec to a *derived* non-Copy Clone impl inside verus!.
#[verifier::external_type_specification]
pub struct ExNumberRepresentationOrFormat(NumberRepresentationOrFormat);
#[verifier::external_type_specification]
pub struct ExStringLitOrFormat(StringLitOrFormat);
// T2: derived Clone returns an equal value.
pub assume_specification[ <NumberRepresentationOrFormat as Clone>::clone ](x: &NumberRepresentationOrFormat) -> (r: NumberRepresentationOrFormat)
    ensures r == *x;
pub assume_specification[ <StringLitOrFormat as Clone>::clone ](x: &StringLitOrFormat) -> (r: StringLitOrFormat)
    ensures r == *x;

// R5 (contract-only): the context is only threaded through `is_empty_status`.
// #unless-take struct SemTypeContext
#[verifier::external_body]
pub struct SemTypeContext { _p: core::marker::PhantomData<()> }
// #end

// "format-free fragment" of C06: literals on which SubtypeCheck::is_subtype is plain equality.
pub trait FlatLit {
    spec fn flat_lit(&self) -> bool;
}
// a template-literal type that is a single string constant
pub open spec fn tpl_is_single_const(t: TplLitType) -> bool {
    t.0@.len() == 1 && (match t.0@[0] { TplLitTypeItem::StringConst(_) => true, _ => false })
}
impl FlatLit for NumberRepresentationOrFormat {
    open spec fn flat_lit(&self) -> bool { match *self { NumberRepresentationOrFormat::Lit(_) => true, _ => false } }
}
impl FlatLit for StringLitOrFormat {
    open spec fn flat_lit(&self) -> bool { match *self { StringLitOrFormat::Tpl(t) => tpl_is_single_const(t), _ => false } }
}
impl FlatLit for TypedArrayKind {
    open spec fn flat_lit(&self) -> bool { true }
}
impl FlatLit for VoidUndefinedSubtype {
    // Undefined <: Void makes this literal algebra a down-set algebra, which C06 does not describe:
    // nothing is claimed (true or false) about membership for this tag.
    open spec fn flat_lit(&self) -> bool { false }
}
pub open spec fn all_flat<K: FlatLit>(s: Seq<K>) -> bool { forall|i: int| 0 <= i < s.len() ==> (#[trigger] s[i]).flat_lit() }

// ---- the three literal-list operations sub_vec_{union,intersect,diff} are extracted and verified (generic in K).
// What a literal type K must satisfy for them to be set operations ("format-free fragment"): `is_subtype` is equality
// on the elements present (`sc_flat`, a ghost member of SubtypeCheck), `clone` returns an equal value, `==` is
// structural. Each is proved for the concrete K at the call sites (ProperSubtypeOps), not assumed.
pub open spec fn clone_is_eq<K: Clone>() -> bool { forall|a: &K, b: K| #[trigger] call_ensures(K::clone, (a,), b) ==> *a == b }
pub open spec fn eq_is_structural<K: PartialEq>() -> bool { K::obeys_eq_spec() && forall|a: K, b: K| #[trigger] a.eq_spec(&b) == (a == b) }
spec fn all_sc<K: SubtypeCheck>(s: Seq<K>) -> bool { forall|x: K| #[trigger] s.contains(x) ==> x.sc_flat() }
spec fn lit_ok<K: SubtypeCheck + Clone>(a: Seq<K>, b: Seq<K>) -> bool { all_sc(a) && all_sc(b) && clone_is_eq::<K>() }
// x occurs among the first n elements of s
pub open spec fn in_prefix<K>(s: Seq<K>, n: int, x: K) -> bool { exists|k: int| 0 <= k < n && k < s.len() && #[trigger] s[k] == x }
// the first m indices, removed from the back, are each inside a vector that shrinks by one per removal
pub open spec fn packed(s: Seq<usize>, m: int, n: int) -> bool { forall|a: int| 0 <= a < m ==> (#[trigger] s[a]) + (m - a) <= n }

pub broadcast proof fn lemma_push_contains<K>(s: Seq<K>, a: K, x: K)
    ensures #[trigger] s.push(a).contains(x) == (s.contains(x) || x == a)
{
    if s.push(a).contains(x) {
        let k = choose|k: int| 0 <= k < s.push(a).len() && s.push(a)[k] == x;
        if k < s.len() { assert(s[k] == x); }
    }
    if s.contains(x) { let k = choose|k: int| 0 <= k < s.len() && s[k] == x; assert(s.push(a)[k] == x); }
    if x == a { assert(s.push(a)[s.len() as int] == x); }
}
pub broadcast proof fn lemma_in_prefix_step<K>(s: Seq<K>, n: int, x: K)
    requires 0 <= n < s.len()
    ensures #[trigger] in_prefix(s, n + 1, x) == (in_prefix(s, n, x) || s[n] == x)
{
    if in_prefix(s, n + 1, x) { let k = choose|k: int| 0 <= k < n + 1 && k < s.len() && #[trigger] s[k] == x; if k < n { assert(in_prefix(s, n, x)); } }
    if in_prefix(s, n, x) { let k = choose|k: int| 0 <= k < n && k < s.len() && #[trigger] s[k] == x; assert(0 <= k < n + 1 && s[k] == x); }
    if s[n] == x { assert(0 <= n < n + 1 && s[n] == x); }
}
pub broadcast proof fn lemma_in_prefix_all<K>(s: Seq<K>, x: K)
    ensures #[trigger] in_prefix(s, s.len() as int, x) == s.contains(x), !in_prefix(s, 0, x)
{
    if s.contains(x) { let k = choose|k: int| 0 <= k < s.len() && s[k] == x; assert(0 <= k < s.len() && s[k] == x); }
}
pub broadcast proof fn lemma_index_contains<K>(s: Seq<K>, i: int)
    requires 0 <= i < s.len()
    ensures s.contains(#[trigger] s[i])
{}
// R16 (T1, assumed behaviour of std's slice::sort): same length, same elements. The body is the call it replaces.
#[verifier::external_body]
fn vsort<K: Ord>(v: &mut Vec<K>)
    ensures final(v)@.len() == old(v)@.len(),
            forall|x: K| #![trigger final(v)@.contains(x)] #![trigger old(v)@.contains(x)] final(v)@.contains(x) == old(v)@.contains(x),
{ v.sort() }
// the ghost member `sc_flat` of SubtypeCheck is `flat_lit` on each literal type
broadcast proof fn lemma_flat_sc_num(s: Seq<NumberRepresentationOrFormat>)
    ensures #![trigger all_flat(s)] #![trigger all_sc(s)] all_flat(s) == all_sc(s)
{
    if all_flat(s) { assert forall|x: NumberRepresentationOrFormat| #[trigger] s.contains(x) implies x.sc_flat() by { let k = choose|k: int| 0 <= k < s.len() && s[k] == x; assert(s[k].flat_lit()); } }
    if all_sc(s) { assert forall|i: int| 0 <= i < s.len() implies (#[trigger] s[i]).flat_lit() by { assert(s.contains(s[i])); assert(s[i].sc_flat()); } }
}
broadcast proof fn lemma_flat_sc_str(s: Seq<StringLitOrFormat>)
    ensures #![trigger all_flat(s)] #![trigger all_sc(s)] all_flat(s) == all_sc(s)
{
    if all_flat(s) { assert forall|x: StringLitOrFormat| #[trigger] s.contains(x) implies x.sc_flat() by { let k = choose|k: int| 0 <= k < s.len() && s[k] == x; assert(s[k].flat_lit()); } }
    if all_sc(s) { assert forall|i: int| 0 <= i < s.len() implies (#[trigger] s[i]).flat_lit() by { assert(s.contains(s[i])); assert(s[i].sc_flat()); } }
}
broadcast proof fn lemma_flat_sc_ta(s: Seq<TypedArrayKind>)
    ensures #![trigger all_flat(s)] #![trigger all_sc(s)] all_flat(s) && all_sc(s)
{}

// T2: derived PartialEq on the literal payload types is structural equality
impl vstd::std_specs::cmp::PartialEqSpecImpl for NumberRepresentationOrFormat {
    open spec fn obeys_eq_spec() -> bool { true }
    open spec fn eq_spec(&self, other: &NumberRepresentationOrFormat) -> bool { *self == *other }
}
impl vstd::std_specs::cmp::PartialEqSpecImpl for StringLitOrFormat {
    open spec fn obeys_eq_spec() -> bool { true }
    open spec fn eq_spec(&self, other: &StringLitOrFormat) -> bool { *self == *other }
}
impl vstd::std_specs::cmp::PartialEqSpecImpl for TypedArrayKind {
    open spec fn obeys_eq_spec() -> bool { true }
    open spec fn eq_spec(&self, other: &TypedArrayKind) -> bool { *self == *other }
}
impl vstd::std_specs::cmp::PartialEqSpecImpl for VoidUndefinedSubtype {
    open spec fn obeys_eq_spec() -> bool { true }
    open spec fn eq_spec(&self, other: &VoidUndefinedSubtype) -> bool { *self == *other }
}
pub assume_specification[ <NumberRepresentationOrFormat as PartialEq>::eq ](a: &NumberRepresentationOrFormat, b: &NumberRepresentationOrFormat) -> (r: bool)
    ensures r == (*a == *b);
pub assume_specification[ <StringLitOrFormat as PartialEq>::eq ](a: &StringLitOrFormat, b: &StringLitOrFormat) -> (r: bool)
    ensures r == (*a == *b);
// T2 (structural equality of Rust values): template literals with the same items are equal
#[verifier::external_body]
pub broadcast proof fn axiom_tpl_ext(a: TplLitType, b: TplLitType)
    requires #[trigger] a.0@ =~= #[trigger] b.0@
    ensures a == b
{}
// R5 (contract-only, ASSUMED): Verus has no slice patterns (`([a], [b]) => Ok(a == b)`)
impl TplLitType {
    #[verifier::external_body]
    fn is_subtype(&self, other: &TplLitType) -> (r: Result<bool>)
        ensures self.0@.len() == 1 && other.0@.len() == 1 ==> r is Ok && r->Ok_0 == (self.0@[0] == other.0@[0])
    { unimplemented!() }
}
// R5 (declaration-only): subset test on format names; formats are outside the format-free fragment
impl CustomFormat {
    #[verifier::external_body]
    fn is_subtype(&self, other: &CustomFormat) -> bool { unimplemented!() }
}

// ---- values (ghost). A structured value (object, list, Map, Set) is abstracted by the set of
// atoms it belongs to (T6 in DESIGN.md: all assignments over-approximate all values).
pub ghost enum Val {
    Bool(bool),
    Num(NumberRepresentationOrFormat),
    Str(StringLitOrFormat),
    Null,
    OptionalProp,
    BigInt,
    Date,
    VU(VoidUndefinedSubtype),
    TA(TypedArrayKind),
    Mapping(Env),
    List(Env),
    Map(Env),
    Set(Env),
}

pub open spec fn tag_of(v: Val) -> SubTypeTag {
    match v {
        Val::Bool(_) => SubTypeTag::Boolean,
        Val::Num(_) => SubTypeTag::Number,
        Val::Str(_) => SubTypeTag::String,
        Val::Null => SubTypeTag::Null,
        Val::OptionalProp => SubTypeTag::OptionalProp,
        Val::BigInt => SubTypeTag::BigInt,
        Val::Date => SubTypeTag::Date,
        Val::VU(_) => SubTypeTag::VoidUndefined,
        Val::TA(_) => SubTypeTag::TypedArray,
        Val::Mapping(_) => SubTypeTag::Mapping,
        Val::List(_) => SubTypeTag::List,
        Val::Map(_) => SubTypeTag::Map,
        Val::Set(_) => SubTypeTag::Set,
    }
}

pub open spec fn ptag(p: ProperSubtype) -> SubTypeTag {
    match p {
        ProperSubtype::Boolean(_) => SubTypeTag::Boolean,
        ProperSubtype::Number { .. } => SubTypeTag::Number,
        ProperSubtype::String { .. } => SubTypeTag::String,
        ProperSubtype::Mapping(_) => SubTypeTag::Mapping,
        ProperSubtype::List(_) => SubTypeTag::List,
        ProperSubtype::VoidUndefined { .. } => SubTypeTag::VoidUndefined,
        ProperSubtype::TypedArray { .. } => SubTypeTag::TypedArray,
        ProperSubtype::Map(_) => SubTypeTag::Map,
        ProperSubtype::Set(_) => SubTypeTag::Set,
    }
}

pub open spec fn code_of(t: SubTypeTag) -> u32 {
    match t {
        SubTypeTag::Boolean => 2u32,
        SubTypeTag::Number => 4u32,
        SubTypeTag::String => 8u32,
        SubTypeTag::Null => 16u32,
        SubTypeTag::Mapping => 32u32,
        SubTypeTag::OptionalProp => 64u32,
        SubTypeTag::List => 128u32,
        SubTypeTag::BigInt => 256u32,
        SubTypeTag::Date => 512u32,
        SubTypeTag::VoidUndefined => 1024u32,
        SubTypeTag::TypedArray => 2048u32,
        SubTypeTag::Map => 4096u32,
        SubTypeTag::Set => 8192u32,
    }
}

// membership of a value in a proper subtype (only meaningful for a value of the same tag)
pub open spec fn mem_proper(p: ProperSubtype, v: Val) -> bool {
    match (p, v) {
        (ProperSubtype::Boolean(b), Val::Bool(x)) => x == b,
        (ProperSubtype::Number { allowed, values }, Val::Num(n)) => allowed == values@.contains(n),
        (ProperSubtype::String { allowed, values }, Val::Str(s)) => allowed == values@.contains(s),
        (ProperSubtype::VoidUndefined { allowed, values }, Val::VU(x)) => allowed == values@.contains(x),
        (ProperSubtype::TypedArray { allowed, values }, Val::TA(k)) => allowed == values@.contains(k),
        (ProperSubtype::Mapping(bdd), Val::Mapping(env)) => eval(*bdd, env),
        (ProperSubtype::List(bdd), Val::List(env)) => eval(*bdd, env),
        (ProperSubtype::Map(bdd), Val::Map(env)) => eval(*bdd, env),
        (ProperSubtype::Set(bdd), Val::Set(env)) => eval(*bdd, env),
        _ => false,
    }
}

pub open spec fn sub_tag(s: SubType) -> SubTypeTag {
    match s {
        SubType::False(t) => t,
        SubType::True(t) => t,
        SubType::Proper(p) => ptag(*p),
    }
}

pub open spec fn mem_sub(s: SubType, v: Val) -> bool {
    match s {
        SubType::False(_) => false,
        SubType::True(t) => tag_of(v) == t,
        SubType::Proper(p) => mem_proper(*p, v),
    }
}

// the format-free fragment, per proper subtype
pub open spec fn flat_p(p: ProperSubtype) -> bool {
    match p {
        ProperSubtype::Number { allowed, values } => all_flat(values@),
        ProperSubtype::String { allowed, values } => all_flat(values@),
        ProperSubtype::TypedArray { allowed, values } => all_flat(values@),
        ProperSubtype::VoidUndefined { allowed, values } => false,
        _ => true,
    }
}
pub open spec fn flat_sub(s: SubType) -> bool {
    match s {
        SubType::Proper(p) => flat_p(*p),
        _ => true,
    }
}

// a recorded proper subtype of a literal kind lists at least one literal (else it would be False/True)
pub open spec fn nontrivial_p(p: ProperSubtype) -> bool {
    match p {
        ProperSubtype::Number { allowed, values } => values@.len() > 0,
        ProperSubtype::String { allowed, values } => values@.len() > 0,
        ProperSubtype::VoidUndefined { allowed, values } => values@.len() > 0,
        ProperSubtype::TypedArray { allowed, values } => values@.len() > 0,
        _ => true,
    }
}
pub open spec fn sub_nontrivial(s: SubType) -> bool {
    match s {
        SubType::Proper(p) => nontrivial_p(*p),
        _ => true,
    }
}
pub broadcast proof fn lemma_flat_first<K: FlatLit>(s: Seq<K>)
    ensures #[trigger] all_flat(s) ==> (s.len() > 0 ==> s.contains(s[0]))
{
    if s.len() > 0 { assert(s[0] == s[0]); }
}

// ---------------------------------------------------------------- emptiness of the structured kinds
// Decided by list_is_empty / dnf_mapping_is_empty / dnf_map_is_empty (bdd.rs, dnf.rs, mapping.rs),
// which are NOT verified here: ASSUMED (this is the unproved part of C05). They are modelled as
// functions of the diagram and of the atom tables of the context ("Defs"), which they leave unchanged;
// that the memo tables do not influence the answer is part of the assumption.
pub ghost struct Defs { pub id: int }
pub uninterp spec fn ctx_defs(ctx: SemTypeContext) -> Defs;
pub uninterp spec fn list_empty(b: Bdd, defs: Defs) -> bool;
pub uninterp spec fn mapping_empty(b: Bdd, defs: Defs) -> bool;
pub uninterp spec fn map_empty(b: Bdd, defs: Defs) -> bool;

// #unless-take fn dnf_mapping_is_empty
#[verifier::external_body]
fn dnf_mapping_is_empty(bdd: &Rc<Bdd>, ctx: &mut SemTypeContext) -> (r: Result<IsEmptyStatus>)
    ensures ctx_defs(*final(ctx)) == ctx_defs(*old(ctx)),
            r is Ok ==> (r->Ok_0 == IsEmptyStatus::IsEmpty) == mapping_empty(**bdd, ctx_defs(*old(ctx))),
{ unimplemented!() }
// #end
// #unless-take fn dnf_map_is_empty
#[verifier::external_body]
fn dnf_map_is_empty(bdd: &Rc<Bdd>, ctx: &mut SemTypeContext) -> (r: Result<IsEmptyStatus>)
    ensures ctx_defs(*final(ctx)) == ctx_defs(*old(ctx)),
            r is Ok ==> (r->Ok_0 == IsEmptyStatus::IsEmpty) == map_empty(**bdd, ctx_defs(*old(ctx))),
{ unimplemented!() }
// #end
// #unless-take fn list_is_empty
#[verifier::external_body]
fn list_is_empty(bdd: &Rc<Bdd>, builder: &mut SemTypeContext) -> (r: Result<IsEmptyStatus>)
    ensures ctx_defs(*final(builder)) == ctx_defs(*old(builder)),
            r is Ok ==> (r->Ok_0 == IsEmptyStatus::IsEmpty) == list_empty(**bdd, ctx_defs(*old(builder))),
{ unimplemented!() }
// #end

pub open spec fn proper_empty(p: ProperSubtype, defs: Defs) -> bool {
    match p {
        ProperSubtype::Mapping(b) => mapping_empty(*b, defs),
        ProperSubtype::List(b) => list_empty(*b, defs),
        ProperSubtype::Map(b) => map_empty(*b, defs),
        ProperSubtype::Set(b) => list_empty(*b, defs),
        _ => false,
    }
}

pub open spec fn all_tags() -> Seq<SubTypeTag> {
    seq![SubTypeTag::String, SubTypeTag::Boolean, SubTypeTag::Number, SubTypeTag::OptionalProp, SubTypeTag::Null,
         SubTypeTag::Mapping, SubTypeTag::List, SubTypeTag::BigInt, SubTypeTag::Date, SubTypeTag::VoidUndefined,
         SubTypeTag::TypedArray, SubTypeTag::Map, SubTypeTag::Set]
}
