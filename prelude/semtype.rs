// ---- prelude/semtype.rs : SemType = bit-set of full tags + per-tag proper subtypes sorted by tag

pub type PairItem = (Option<Rc<ProperSubtype>>, Option<Rc<ProperSubtype>>);
pub type PSeq = Seq<Rc<ProperSubtype>>;

pub open spec fn pcode(p: Rc<ProperSubtype>) -> u32 { code_of(ptag(*p)) }
// Rc-level aliases (proof code may not move out of an Rc, spec code may)
pub open spec fn rtag(p: Rc<ProperSubtype>) -> SubTypeTag { ptag(*p) }
pub open spec fn rmem(p: Rc<ProperSubtype>, v: Val) -> bool { mem_proper(*p, v) }

// What SubTypePairIterator yields from position (i1, i2): the merge of two sequences by tag code,
// keeping only the tags selected by `bits`. Mirrors `next` case by case, for *arbitrary* sequences
// (sortedness is only needed by the callers, see lemma_merge_ok).
pub open spec fn merge_from(d1: PSeq, d2: PSeq, i1: int, i2: int, bits: u32) -> Seq<PairItem>
    decreases (if i1 < d1.len() { d1.len() - i1 } else { 0 }) + (if i2 < d2.len() { d2.len() - i2 } else { 0 })
{
    if i1 < 0 || i2 < 0 {
        Seq::empty()
    } else if i1 >= d1.len() {
        if i2 >= d2.len() {
            Seq::empty()
        } else {
            let rest = merge_from(d1, d2, i1, i2 + 1, bits);
            if bits & pcode(d2[i2]) != 0 { seq![(None, Some(d2[i2]))] + rest } else { rest }
        }
    } else if i2 >= d2.len() {
        let rest = merge_from(d1, d2, i1 + 1, i2, bits);
        if bits & pcode(d1[i1]) != 0 { seq![(Some(d1[i1]), None)] + rest } else { rest }
    } else {
        let c1 = pcode(d1[i1]);
        let c2 = pcode(d2[i2]);
        if c1 == c2 {
            let rest = merge_from(d1, d2, i1 + 1, i2 + 1, bits);
            if bits & c1 != 0 { seq![(Some(d1[i1]), Some(d2[i2]))] + rest } else { rest }
        } else if c1 < c2 {
            let rest = merge_from(d1, d2, i1 + 1, i2, bits);
            if bits & c1 != 0 { seq![(Some(d1[i1]), None)] + rest } else { rest }
        } else {
            let rest = merge_from(d1, d2, i1, i2 + 1, bits);
            if bits & c2 != 0 { seq![(None, Some(d2[i2]))] + rest } else { rest }
        }
    }
}

pub closed spec fn iter_remaining(it: SubTypePairIterator) -> Seq<PairItem> {
    merge_from(it.t1.subtype_data@, it.t2.subtype_data@, it.i1 as int, it.i2 as int, it.bits)
}
pub closed spec fn iter_measure(it: SubTypePairIterator) -> nat {
    ((if it.i1 < it.t1.subtype_data@.len() { it.t1.subtype_data@.len() - it.i1 } else { 0 })
     + (if it.i2 < it.t2.subtype_data@.len() { it.t2.subtype_data@.len() - it.i2 } else { 0 })) as nat
}

// vstd's prophetic iterator interface (std_specs/iter.rs): `Iterator::next` must satisfy
//   final.obeys == old.obeys; will_return_none and decrease-is-Some are stable;
//   remaining().len() > 0 ? (ret == Some(remaining()[0]) && final.remaining() == remaining().drop_first())
//                         : (ret == None && final.remaining() == remaining() && will_return_none)
// These are *proved* for the real `next` below (they are its inherited postconditions).
impl vstd::std_specs::iter::IteratorSpecImpl for SubTypePairIterator {
    closed spec fn obeys_prophetic_iter_laws(&self) -> bool { true }
    closed spec fn remaining(&self) -> Seq<PairItem> { iter_remaining(*self) }
    closed spec fn will_return_none(&self) -> bool { true }
    closed spec fn decrease(&self) -> Option<nat> { Some(iter_measure(*self)) }
    closed spec fn peek(&self, i: int) -> Option<PairItem> {
        if 0 <= i < iter_remaining(*self).len() { Some(iter_remaining(*self)[i]) } else { None }
    }
}

pub broadcast proof fn lemma_seq_cons_drop_first<A>(x: A, r: Seq<A>)
    ensures #[trigger] (seq![x] + r).drop_first() == r, (seq![x] + r)[0] == x, (seq![x] + r).len() == r.len() + 1
{
    assert((seq![x] + r).drop_first() =~= r);
}

// ---------------------------------------------------------------- tag codes as single bits
pub open spec fn is_code(c: u32) -> bool {
    c == 2 || c == 4 || c == 8 || c == 16 || c == 32 || c == 64 || c == 128 || c == 256 || c == 512
        || c == 1024 || c == 2048 || c == 4096 || c == 8192
}
pub open spec fn bit(a: u32, c: u32) -> bool { (a & c) != 0 }

pub broadcast proof fn lemma_code_of_is_code(t: SubTypeTag)
    ensures is_code(#[trigger] code_of(t)) {}
pub proof fn lemma_code_injective(t1: SubTypeTag, t2: SubTypeTag)
    ensures (code_of(t1) == code_of(t2)) == (t1 == t2) {}

pub proof fn bv_and(a: u32, b: u32, c: u32)
    by (bit_vector)
    requires c == 2 || c == 4 || c == 8 || c == 16 || c == 32 || c == 64 || c == 128 || c == 256 || c == 512 || c == 1024 || c == 2048 || c == 4096 || c == 8192
    ensures (((a & b) & c) != 0) == ((a & c) != 0 && (b & c) != 0) {}
pub proof fn bv_or(a: u32, b: u32, c: u32)
    by (bit_vector)
    requires c == 2 || c == 4 || c == 8 || c == 16 || c == 32 || c == 64 || c == 128 || c == 256 || c == 512 || c == 1024 || c == 2048 || c == 4096 || c == 8192
    ensures (((a | b) & c) != 0) == ((a & c) != 0 || (b & c) != 0) {}
pub proof fn bv_andnot(a: u32, b: u32, c: u32)
    by (bit_vector)
    requires c == 2 || c == 4 || c == 8 || c == 16 || c == 32 || c == 64 || c == 128 || c == 256 || c == 512 || c == 1024 || c == 2048 || c == 4096 || c == 8192
    ensures (((a & !b) & c) != 0) == ((a & c) != 0 && (b & c) == 0) {}
pub proof fn bv_self(x: u32, c: u32)
    by (bit_vector)
    requires c == 2 || c == 4 || c == 8 || c == 16 || c == 32 || c == 64 || c == 128 || c == 256 || c == 512 || c == 1024 || c == 2048 || c == 4096 || c == 8192,
             x == 2 || x == 4 || x == 8 || x == 16 || x == 32 || x == 64 || x == 128 || x == 256 || x == 512 || x == 1024 || x == 2048 || x == 4096 || x == 8192
    ensures ((x & c) != 0) == (x == c) {}
pub proof fn bv_in_val(a: u32, c: u32)
    by (bit_vector)
    requires c == 2 || c == 4 || c == 8 || c == 16 || c == 32 || c == 64 || c == 128 || c == 256 || c == 512 || c == 1024 || c == 2048 || c == 4096 || c == 8192
    ensures (c & !0x3ffeu32) == 0, ((a | c) & !0x3ffeu32) == (a & !0x3ffeu32) {}
pub proof fn bv_val_nonzero_has_code(a: u32)
    by (bit_vector)
    requires a != 0, (a & !0x3ffeu32) == 0
    ensures (a & 2) != 0 || (a & 4) != 0 || (a & 8) != 0 || (a & 16) != 0 || (a & 32) != 0 || (a & 64) != 0 || (a & 128) != 0
        || (a & 256) != 0 || (a & 512) != 0 || (a & 1024) != 0 || (a & 2048) != 0 || (a & 4096) != 0 || (a & 8192) != 0 {}

// broadcast forms over `bit`
pub broadcast proof fn lemma_bit_and(a: u32, b: u32, c: u32)
    requires is_code(c)
    ensures #[trigger] bit(a & b, c) == (bit(a, c) && bit(b, c)) { bv_and(a, b, c); }
pub broadcast proof fn lemma_bit_or(a: u32, b: u32, c: u32)
    requires is_code(c)
    ensures #[trigger] bit(a | b, c) == (bit(a, c) || bit(b, c)) { bv_or(a, b, c); }
pub broadcast proof fn lemma_bit_andnot(a: u32, b: u32, c: u32)
    requires is_code(c)
    ensures #[trigger] bit(a & !b, c) == (bit(a, c) && !bit(b, c)) { bv_andnot(a, b, c); }
pub broadcast proof fn lemma_bit_self(x: u32, c: u32)
    requires is_code(c), is_code(x)
    ensures #[trigger] bit(x, c) == (x == c) { bv_self(x, c); }
pub broadcast proof fn lemma_bit_zero(c: u32)
    ensures !#[trigger] bit(0u32, c) { assert((0u32 & c) == 0) by (bit_vector); }

// ---------------------------------------------------------------- well-formedness and membership
pub open spec fn all_in_val(all: u32) -> bool { (all & !0x3ffeu32) == 0 }
pub open spec fn sorted_codes(d: PSeq) -> bool {
    forall|i: int, j: int| 0 <= i < j < d.len() ==> pcode(#[trigger] d[i]) < pcode(#[trigger] d[j])
}
pub open spec fn elems_ok(all: u32, d: PSeq) -> bool {
    forall|i: int| 0 <= i < d.len() ==> !bit(all, pcode(#[trigger] d[i])) && nontrivial_p(*d[i])
}
pub open spec fn wf_parts(all: u32, d: PSeq) -> bool { all_in_val(all) && sorted_codes(d) && elems_ok(all, d) }
pub open spec fn wf(t: SemType) -> bool { wf_parts(t.all, t.subtype_data@) }
pub open spec fn flat_seq(d: PSeq) -> bool { forall|i: int| 0 <= i < d.len() ==> flat_p(*#[trigger] d[i]) }
pub open spec fn flat(t: SemType) -> bool { flat_seq(t.subtype_data@) }

pub open spec fn in_seq(d: PSeq, v: Val) -> bool {
    exists|i: int| 0 <= i < d.len() && ptag(*#[trigger] d[i]) == tag_of(v) && mem_proper(*d[i], v)
}
pub open spec fn memb(all: u32, d: PSeq, v: Val) -> bool { bit(all, code_of(tag_of(v))) || in_seq(d, v) }
// membership of a value in a semantic type (the meaning C05/C06/C07 are stated against)
pub open spec fn mem(t: SemType, v: Val) -> bool { memb(t.all, t.subtype_data@, v) }

pub open spec fn has_code(d: PSeq, c: u32) -> bool { exists|i: int| 0 <= i < d.len() && pcode(#[trigger] d[i]) == c }
pub open spec fn idx_of(d: PSeq, c: u32) -> int { choose|i: int| 0 <= i < d.len() && pcode(#[trigger] d[i]) == c }
pub open spec fn lookup(d: PSeq, c: u32) -> Option<Rc<ProperSubtype>> { if has_code(d, c) { Some(d[idx_of(d, c)]) } else { None } }

// with sorted (hence distinct) codes, membership is decided by the unique entry of the value's tag
pub proof fn lemma_in_seq_char(d: PSeq, v: Val)
    requires sorted_codes(d)
    ensures in_seq(d, v) == (match lookup(d, code_of(tag_of(v))) { Some(p) => mem_proper(*p, v), None => false })
{
    let c = code_of(tag_of(v));
    if in_seq(d, v) {
        let i = choose|i: int| 0 <= i < d.len() && ptag(*#[trigger] d[i]) == tag_of(v) && mem_proper(*d[i], v);
        assert(pcode(d[i]) == c);
        let j = idx_of(d, c);
        assert(0 <= j < d.len() && pcode(d[j]) == c);
        if i < j { assert(pcode(d[i]) < pcode(d[j])); } else if j < i { assert(pcode(d[j]) < pcode(d[i])); }
        assert(i == j);
    }
    if has_code(d, c) {
        let j = idx_of(d, c);
        lemma_code_injective(rtag(d[j]), tag_of(v));
        if rmem(d[j], v) { assert(rtag(d[j]) == tag_of(v) && rmem(d[j], v)); }
    }
}

pub broadcast proof fn lemma_in_seq_push(d: PSeq, p: Rc<ProperSubtype>, v: Val)
    ensures #[trigger] in_seq(d.push(p), v) == (in_seq(d, v) || (ptag(*p) == tag_of(v) && mem_proper(*p, v)))
{
    if in_seq(d.push(p), v) {
        let i = choose|i: int| 0 <= i < d.push(p).len() && ptag(*#[trigger] d.push(p)[i]) == tag_of(v) && mem_proper(*d.push(p)[i], v);
        if i < d.len() { assert(d.push(p)[i] == d[i]); } else { assert(d.push(p)[i] == p); }
    }
    if in_seq(d, v) {
        let i = choose|i: int| 0 <= i < d.len() && ptag(*#[trigger] d[i]) == tag_of(v) && mem_proper(*d[i], v);
        assert(d.push(p)[i] == d[i]);
    }
    if rtag(p) == tag_of(v) && rmem(p, v) { assert(d.push(p)[d.len() as int] == p); }
}
pub broadcast proof fn lemma_in_seq_empty(v: Val)
    ensures !#[trigger] in_seq(Seq::<Rc<ProperSubtype>>::empty(), v) {}

// ---------------------------------------------------------------- some_as_bitset
pub open spec fn some_bits(d: PSeq) -> u32
    decreases d.len()
{
    if d.len() == 0 { 0u32 } else { some_bits(d.drop_last()) | pcode(d.last()) }
}
pub proof fn lemma_some_bits(d: PSeq, c: u32)
    requires is_code(c)
    ensures bit(some_bits(d), c) == has_code(d, c)
    decreases d.len()
{
    if d.len() == 0 {
        lemma_bit_zero(c);
    } else {
        let r = d.drop_last();
        lemma_some_bits(r, c);
        bv_or(some_bits(r), pcode(d.last()), c);
        lemma_code_of_is_code(rtag(d.last()));
        bv_self(pcode(d.last()), c);
        if has_code(d, c) {
            let i = choose|i: int| 0 <= i < d.len() && pcode(#[trigger] d[i]) == c;
            if i < r.len() { assert(r[i] == d[i]); assert(has_code(r, c)); }
        }
        if has_code(r, c) {
            let i = choose|i: int| 0 <= i < r.len() && pcode(#[trigger] r[i]) == c;
            assert(d[i] == r[i]);
        }
        if pcode(d.last()) == c { assert(pcode(d[d.len() - 1]) == c); }
    }
}

// ---------------------------------------------------------------- what the merge yields (for sorted inputs)
pub open spec fn item_code(it: PairItem) -> u32 {
    match it { (Some(a), _) => pcode(a), (None, Some(b)) => pcode(b), (None, None) => 0u32 }
}
pub open spec fn has_code_from(d: PSeq, i: int, c: u32) -> bool { exists|j: int| i <= j < d.len() && 0 <= j && pcode(#[trigger] d[j]) == c }
pub open spec fn in_suffix(d1: PSeq, d2: PSeq, i1: int, i2: int, c: u32) -> bool { has_code_from(d1, i1, c) || has_code_from(d2, i2, c) }
pub open spec fn cross(d1: PSeq, d2: PSeq, i1: int, i2: int) -> bool {
    (forall|a: int, b: int| 0 <= a < i1 && i2 <= b < d2.len() && a < d1.len() && 0 <= b ==> pcode(#[trigger] d1[a]) < pcode(#[trigger] d2[b]))
    && (forall|a: int, b: int| 0 <= b < i2 && i1 <= a < d1.len() && b < d2.len() && 0 <= a ==> pcode(#[trigger] d2[b]) < pcode(#[trigger] d1[a]))
}
pub open spec fn item_ok(d1: PSeq, d2: PSeq, i1: int, i2: int, bits: u32, it: PairItem) -> bool {
    let c = item_code(it);
    bit(bits, c) && in_suffix(d1, d2, i1, i2, c) && it.0 == lookup(d1, c) && it.1 == lookup(d2, c)
}
pub open spec fn suffix_ok(d1: PSeq, d2: PSeq, i1: int, i2: int, bits: u32, m: Seq<PairItem>) -> bool {
    &&& forall|k: int| 0 <= k < m.len() ==> item_ok(d1, d2, i1, i2, bits, #[trigger] m[k])
    &&& forall|k: int, l: int| 0 <= k < l < m.len() ==> item_code(#[trigger] m[k]) < item_code(#[trigger] m[l])
    &&& forall|c: u32| bit(bits, c) && #[trigger] in_suffix(d1, d2, i1, i2, c) ==> exists|k: int| 0 <= k < m.len() && item_code(#[trigger] m[k]) == c
}

proof fn lemma_suffix_cons(d1: PSeq, d2: PSeq, i1: int, i2: int, j1: int, j2: int, bits: u32, x: PairItem, rest: Seq<PairItem>)
    requires
        suffix_ok(d1, d2, j1, j2, bits, rest), 0 <= i1 <= j1, 0 <= i2 <= j2,
        item_ok(d1, d2, i1, i2, bits, x),
        forall|c: u32| #[trigger] in_suffix(d1, d2, j1, j2, c) ==> item_code(x) < c,
        forall|c: u32| #[trigger] in_suffix(d1, d2, i1, i2, c) ==> c == item_code(x) || in_suffix(d1, d2, j1, j2, c),
    ensures suffix_ok(d1, d2, i1, i2, bits, seq![x] + rest)
{
    let m = seq![x] + rest;
    assert forall|k: int| 0 <= k < m.len() implies item_ok(d1, d2, i1, i2, bits, #[trigger] m[k]) by {
        if k == 0 { assert(m[0] == x); } else {
            assert(m[k] == rest[k - 1]);
            assert(item_ok(d1, d2, j1, j2, bits, rest[k - 1]));
            let c = item_code(rest[k - 1]);
            assert(in_suffix(d1, d2, j1, j2, c));
            lemma_suffix_weaken(d1, d2, i1, i2, j1, j2, c);
        }
    }
    assert forall|k: int, l: int| 0 <= k < l < m.len() implies item_code(#[trigger] m[k]) < item_code(#[trigger] m[l]) by {
        assert(m[l] == rest[l - 1]);
        assert(item_ok(d1, d2, j1, j2, bits, rest[l - 1]));
        if k == 0 { assert(m[0] == x); assert(in_suffix(d1, d2, j1, j2, item_code(rest[l - 1]))); }
        else { assert(m[k] == rest[k - 1]); }
    }
    assert forall|c: u32| bit(bits, c) && #[trigger] in_suffix(d1, d2, i1, i2, c) implies exists|k: int| 0 <= k < m.len() && item_code(#[trigger] m[k]) == c by {
        if c == item_code(x) { assert(m[0] == x); assert(0 <= 0 < m.len() && item_code(m[0]) == c); }
        else {
            assert(in_suffix(d1, d2, j1, j2, c));
            let k = choose|k: int| 0 <= k < rest.len() && item_code(#[trigger] rest[k]) == c;
            assert(m[k + 1] == rest[k]);
            assert(0 <= k + 1 < m.len() && item_code(m[k + 1]) == c);
        }
    }
}

proof fn lemma_suffix_weaken(d1: PSeq, d2: PSeq, i1: int, i2: int, j1: int, j2: int, c: u32)
    requires 0 <= i1 <= j1, 0 <= i2 <= j2, in_suffix(d1, d2, j1, j2, c)
    ensures in_suffix(d1, d2, i1, i2, c)
{
    if has_code_from(d1, j1, c) {
        let j = choose|j: int| j1 <= j < d1.len() && 0 <= j && pcode(#[trigger] d1[j]) == c;
        assert(i1 <= j < d1.len() && 0 <= j && pcode(d1[j]) == c);
    } else {
        let j = choose|j: int| j2 <= j < d2.len() && 0 <= j && pcode(#[trigger] d2[j]) == c;
        assert(i2 <= j < d2.len() && 0 <= j && pcode(d2[j]) == c);
    }
}

proof fn lemma_suffix_skip(d1: PSeq, d2: PSeq, i1: int, i2: int, j1: int, j2: int, bits: u32, cc: u32, rest: Seq<PairItem>)
    requires
        suffix_ok(d1, d2, j1, j2, bits, rest), 0 <= i1 <= j1, 0 <= i2 <= j2, !bit(bits, cc),
        forall|c: u32| #[trigger] in_suffix(d1, d2, i1, i2, c) ==> c == cc || in_suffix(d1, d2, j1, j2, c),
    ensures suffix_ok(d1, d2, i1, i2, bits, rest)
{
    assert forall|k: int| 0 <= k < rest.len() implies item_ok(d1, d2, i1, i2, bits, #[trigger] rest[k]) by {
        assert(item_ok(d1, d2, j1, j2, bits, rest[k]));
        lemma_suffix_weaken(d1, d2, i1, i2, j1, j2, item_code(rest[k]));
    }
    assert forall|c: u32| bit(bits, c) && #[trigger] in_suffix(d1, d2, i1, i2, c) implies exists|k: int| 0 <= k < rest.len() && item_code(#[trigger] rest[k]) == c by {
        assert(in_suffix(d1, d2, j1, j2, c));
    }
}

// lookup of the code at position i in a sorted sequence is that position
proof fn lemma_lookup_at(d: PSeq, i: int)
    requires sorted_codes(d), 0 <= i < d.len()
    ensures lookup(d, pcode(d[i])) == Some(d[i]), has_code(d, pcode(d[i]))
{
    let c = pcode(d[i]);
    assert(0 <= i < d.len() && pcode(d[i]) == c);
    let j = idx_of(d, c);
    assert(0 <= j < d.len() && pcode(d[j]) == c);
    if i < j { assert(pcode(d[i]) < pcode(d[j])); } else if j < i { assert(pcode(d[j]) < pcode(d[i])); }
}
// a code smaller than everything from i on, and larger than everything before, is absent
proof fn lemma_lookup_none(d: PSeq, i: int, c: u32)
    requires 0 <= i <= d.len(),
        forall|a: int| 0 <= a < i ==> pcode(#[trigger] d[a]) < c,
        forall|a: int| i <= a < d.len() ==> c < pcode(#[trigger] d[a]),
    ensures lookup(d, c) == None::<Rc<ProperSubtype>>, !has_code(d, c)
{
    if has_code(d, c) {
        let j = choose|j: int| 0 <= j < d.len() && pcode(#[trigger] d[j]) == c;
        if j < i { assert(pcode(d[j]) < c); } else { assert(c < pcode(d[j])); }
    }
}

pub proof fn lemma_merge_suffix(d1: PSeq, d2: PSeq, i1: int, i2: int, bits: u32)
    requires sorted_codes(d1), sorted_codes(d2), 0 <= i1 <= d1.len(), 0 <= i2 <= d2.len(), cross(d1, d2, i1, i2)
    ensures suffix_ok(d1, d2, i1, i2, bits, merge_from(d1, d2, i1, i2, bits))
    decreases (d1.len() - i1) + (d2.len() - i2)
{
    let m = merge_from(d1, d2, i1, i2, bits);
    if i1 >= d1.len() {
        if i2 >= d2.len() {
            assert forall|c: u32| !#[trigger] in_suffix(d1, d2, i1, i2, c) by {}
        } else {
            // only d2 left: yields (None, Some(d2[i2]))
            let c2 = pcode(d2[i2]);
            lemma_merge_suffix(d1, d2, i1, i2 + 1, bits);
            let rest = merge_from(d1, d2, i1, i2 + 1, bits);
            lemma_step_facts(d1, d2, i1, i2, i1, i2 + 1, c2);
            if bit(bits, c2) {
                lemma_lookup_at(d2, i2);
                lemma_lookup_none(d1, d1.len() as int, c2);
                assert(i2 <= i2 < d2.len() && 0 <= i2 && pcode(d2[i2]) == c2);
                lemma_suffix_cons(d1, d2, i1, i2, i1, i2 + 1, bits, (None, Some(d2[i2])), rest);
            } else {
                lemma_suffix_skip(d1, d2, i1, i2, i1, i2 + 1, bits, c2, rest);
            }
        }
    } else if i2 >= d2.len() {
        let c1 = pcode(d1[i1]);
        lemma_merge_suffix(d1, d2, i1 + 1, i2, bits);
        let rest = merge_from(d1, d2, i1 + 1, i2, bits);
        lemma_step_facts(d1, d2, i1, i2, i1 + 1, i2, c1);
        if bit(bits, c1) {
            lemma_lookup_at(d1, i1);
            lemma_lookup_none(d2, d2.len() as int, c1);
            assert(i1 <= i1 < d1.len() && 0 <= i1 && pcode(d1[i1]) == c1);
            lemma_suffix_cons(d1, d2, i1, i2, i1 + 1, i2, bits, (Some(d1[i1]), None), rest);
        } else {
            lemma_suffix_skip(d1, d2, i1, i2, i1 + 1, i2, bits, c1, rest);
        }
    } else {
        let c1 = pcode(d1[i1]);
        let c2 = pcode(d2[i2]);
        if c1 == c2 {
            lemma_merge_suffix(d1, d2, i1 + 1, i2 + 1, bits);
            let rest = merge_from(d1, d2, i1 + 1, i2 + 1, bits);
            lemma_step_facts(d1, d2, i1, i2, i1 + 1, i2 + 1, c1);
            if bit(bits, c1) {
                lemma_lookup_at(d1, i1);
                lemma_lookup_at(d2, i2);
                assert(i1 <= i1 < d1.len() && 0 <= i1 && pcode(d1[i1]) == c1);
                lemma_suffix_cons(d1, d2, i1, i2, i1 + 1, i2 + 1, bits, (Some(d1[i1]), Some(d2[i2])), rest);
            } else {
                lemma_suffix_skip(d1, d2, i1, i2, i1 + 1, i2 + 1, bits, c1, rest);
            }
        } else if c1 < c2 {
            lemma_merge_suffix(d1, d2, i1 + 1, i2, bits);
            let rest = merge_from(d1, d2, i1 + 1, i2, bits);
            lemma_step_facts(d1, d2, i1, i2, i1 + 1, i2, c1);
            if bit(bits, c1) {
                lemma_lookup_at(d1, i1);
                lemma_lookup_none(d2, i2, c1);
                assert(i1 <= i1 < d1.len() && 0 <= i1 && pcode(d1[i1]) == c1);
                lemma_suffix_cons(d1, d2, i1, i2, i1 + 1, i2, bits, (Some(d1[i1]), None), rest);
            } else {
                lemma_suffix_skip(d1, d2, i1, i2, i1 + 1, i2, bits, c1, rest);
            }
        } else {
            lemma_merge_suffix(d1, d2, i1, i2 + 1, bits);
            let rest = merge_from(d1, d2, i1, i2 + 1, bits);
            lemma_step_facts(d1, d2, i1, i2, i1, i2 + 1, c2);
            if bit(bits, c2) {
                lemma_lookup_at(d2, i2);
                lemma_lookup_none(d1, i1, c2);
                assert(i2 <= i2 < d2.len() && 0 <= i2 && pcode(d2[i2]) == c2);
                lemma_suffix_cons(d1, d2, i1, i2, i1, i2 + 1, bits, (None, Some(d2[i2])), rest);
            } else {
                lemma_suffix_skip(d1, d2, i1, i2, i1, i2 + 1, bits, c2, rest);
            }
        }
    }
}

// One merge step from (i1,i2) to (j1,j2) consuming code cc (the minimum of the two heads):
// the cross invariant is kept, everything still to come is larger than cc, and the suffix code set
// shrinks by exactly cc.
proof fn lemma_step_facts(d1: PSeq, d2: PSeq, i1: int, i2: int, j1: int, j2: int, cc: u32)
    requires
        sorted_codes(d1), sorted_codes(d2), 0 <= i1 <= d1.len(), 0 <= i2 <= d2.len(), cross(d1, d2, i1, i2),
        (j1 == i1 || j1 == i1 + 1), (j2 == i2 || j2 == i2 + 1), j1 <= d1.len(), j2 <= d2.len(),
        j1 == i1 + 1 ==> pcode(d1[i1]) == cc,
        j2 == i2 + 1 ==> pcode(d2[i2]) == cc,
        j1 == i1 && i1 < d1.len() ==> cc < pcode(d1[i1]),
        j2 == i2 && i2 < d2.len() ==> cc < pcode(d2[i2]),
        j1 > i1 || j2 > i2,
    ensures
        cross(d1, d2, j1, j2),
        forall|c: u32| #[trigger] in_suffix(d1, d2, j1, j2, c) ==> cc < c,
        forall|c: u32| #[trigger] in_suffix(d1, d2, i1, i2, c) ==> c == cc || in_suffix(d1, d2, j1, j2, c),
        forall|a: int| 0 <= a < i1 ==> pcode(#[trigger] d1[a]) < cc,
        forall|b: int| 0 <= b < i2 ==> pcode(#[trigger] d2[b]) < cc,
        forall|a: int| j1 <= a < d1.len() ==> cc < pcode(#[trigger] d1[a]),
        forall|b: int| j2 <= b < d2.len() ==> cc < pcode(#[trigger] d2[b]),
{
    assert forall|a: int| j1 <= a < d1.len() implies cc < pcode(#[trigger] d1[a]) by {
        if j1 == i1 + 1 { assert(pcode(d1[i1]) < pcode(d1[a])); } else { if a > i1 { assert(pcode(d1[i1]) < pcode(d1[a])); } }
    }
    assert forall|b: int| j2 <= b < d2.len() implies cc < pcode(#[trigger] d2[b]) by {
        if j2 == i2 + 1 { assert(pcode(d2[i2]) < pcode(d2[b])); } else { if b > i2 { assert(pcode(d2[i2]) < pcode(d2[b])); } }
    }
    assert forall|a: int| 0 <= a < i1 implies pcode(#[trigger] d1[a]) < cc by {
        if j1 == i1 + 1 { assert(pcode(d1[a]) < pcode(d1[i1])); } else { assert(pcode(d1[a]) < pcode(d2[i2])); }
    }
    assert forall|b: int| 0 <= b < i2 implies pcode(#[trigger] d2[b]) < cc by {
        if j2 == i2 + 1 { assert(pcode(d2[b]) < pcode(d2[i2])); } else { assert(pcode(d2[b]) < pcode(d1[i1])); }
    }
    assert forall|c: u32| #[trigger] in_suffix(d1, d2, j1, j2, c) implies cc < c by {
        if has_code_from(d1, j1, c) {
            let j = choose|j: int| j1 <= j < d1.len() && 0 <= j && pcode(#[trigger] d1[j]) == c;
        } else {
            let j = choose|j: int| j2 <= j < d2.len() && 0 <= j && pcode(#[trigger] d2[j]) == c;
        }
    }
    assert forall|c: u32| #[trigger] in_suffix(d1, d2, i1, i2, c) implies c == cc || in_suffix(d1, d2, j1, j2, c) by {
        if has_code_from(d1, i1, c) {
            let j = choose|j: int| i1 <= j < d1.len() && 0 <= j && pcode(#[trigger] d1[j]) == c;
            if j >= j1 { assert(j1 <= j < d1.len() && 0 <= j && pcode(d1[j]) == c); }
        } else {
            let j = choose|j: int| i2 <= j < d2.len() && 0 <= j && pcode(#[trigger] d2[j]) == c;
            if j >= j2 { assert(j2 <= j < d2.len() && 0 <= j && pcode(d2[j]) == c); }
        }
    }
}

pub proof fn lemma_merge_ok(d1: PSeq, d2: PSeq, bits: u32)
    requires sorted_codes(d1), sorted_codes(d2)
    ensures suffix_ok(d1, d2, 0, 0, bits, merge_from(d1, d2, 0, 0, bits))
{
    lemma_merge_suffix(d1, d2, 0, 0, bits);
}
pub proof fn lemma_in_suffix_zero(d1: PSeq, d2: PSeq, c: u32)
    ensures in_suffix(d1, d2, 0, 0, c) == (has_code(d1, c) || has_code(d2, c))
{
    if has_code(d1, c) { let j = choose|j: int| 0 <= j < d1.len() && pcode(#[trigger] d1[j]) == c; assert(0 <= j < d1.len() && 0 <= j && pcode(d1[j]) == c); }
    if has_code(d2, c) { let j = choose|j: int| 0 <= j < d2.len() && pcode(#[trigger] d2[j]) == c; assert(0 <= j < d2.len() && 0 <= j && pcode(d2[j]) == c); }
    if has_code_from(d1, 0, c) { let j = choose|j: int| 0 <= j < d1.len() && 0 <= j && pcode(#[trigger] d1[j]) == c; assert(0 <= j < d1.len() && pcode(d1[j]) == c); }
    if has_code_from(d2, 0, c) { let j = choose|j: int| 0 <= j < d2.len() && 0 <= j && pcode(#[trigger] d2[j]) == c; assert(0 <= j < d2.len() && pcode(d2[j]) == c); }
}

// ---------------------------------------------------------------- per-tag meaning of a well-formed type
// (A, L): A = the tag is fully included; L = the proper subtype recorded for the tag, if any
pub proof fn lemma_mem_char(t: SemType, v: Val)
    requires wf(t)
    ensures
        mem(t, v) == (bit(t.all, code_of(tag_of(v))) || match lookup(t.subtype_data@, code_of(tag_of(v))) { Some(p) => rmem(p, v), None => false }),
        has_code(t.subtype_data@, code_of(tag_of(v))) ==> !bit(t.all, code_of(tag_of(v))),
        bit(some_bits(t.subtype_data@), code_of(tag_of(v))) == has_code(t.subtype_data@, code_of(tag_of(v))),
        is_code(code_of(tag_of(v))),
{
    let d = t.subtype_data@;
    let c = code_of(tag_of(v));
    lemma_in_seq_char(d, v);
    lemma_some_bits(d, c);
    if has_code(d, c) {
        let j = choose|j: int| 0 <= j < d.len() && pcode(#[trigger] d[j]) == c;
        assert(!bit(t.all, pcode(d[j])));
    }
}

pub open spec fn inter_all(t1: SemType, t2: SemType) -> u32 { t1.all & t2.all }
pub open spec fn inter_bits(t1: SemType, t2: SemType) -> u32 {
    ((some_bits(t1.subtype_data@) | t1.all) & (some_bits(t2.subtype_data@) | t2.all)) & !(t1.all & t2.all)
}
pub open spec fn union_all(t1: SemType, t2: SemType) -> u32 { t1.all | t2.all }
pub open spec fn union_bits(t1: SemType, t2: SemType) -> u32 {
    ((some_bits(t1.subtype_data@) | some_bits(t2.subtype_data@)) & !(t1.all | t2.all)) & !(t1.all | t2.all)
}
pub open spec fn diff_all(t1: SemType, t2: SemType) -> u32 { t1.all & !(t2.all | some_bits(t2.subtype_data@)) }
pub open spec fn diff_bits(t1: SemType, t2: SemType) -> u32 {
    ((t1.all | some_bits(t1.subtype_data@)) & !(t2.all)) & !(t1.all & !(t2.all | some_bits(t2.subtype_data@)))
}

// What a merged pair means for the operation, at the pair's tag; and what happens at tags the merge skips.
pub proof fn lemma_intersect_at(t1: SemType, t2: SemType, v: Val)
    requires wf(t1), wf(t2)
    ensures ({
        let c = code_of(tag_of(v));
        let l1 = lookup(t1.subtype_data@, c);
        let l2 = lookup(t2.subtype_data@, c);
        &&& is_code(c)
        &&& bit(inter_bits(t1, t2), c) ==> !bit(inter_all(t1, t2), c) && (l1 is Some || l2 is Some)
            && (mem(t1, v) && mem(t2, v)) == (match (l1, l2) {
                (Some(a), None) => rmem(a, v),
                (None, Some(b)) => rmem(b, v),
                (Some(a), Some(b)) => rmem(a, v) && rmem(b, v),
                (None, None) => false,
            })
        &&& !bit(inter_bits(t1, t2), c) ==> (mem(t1, v) && mem(t2, v)) == bit(inter_all(t1, t2), c)
    })
{
    let c = code_of(tag_of(v));
    lemma_mem_char(t1, v);
    lemma_mem_char(t2, v);
    let s1 = some_bits(t1.subtype_data@);
    let s2 = some_bits(t2.subtype_data@);
    bv_and(s1 | t1.all, s2 | t2.all, c);
    bv_or(s1, t1.all, c);
    bv_or(s2, t2.all, c);
    bv_and(t1.all, t2.all, c);
    bv_andnot((s1 | t1.all) & (s2 | t2.all), t1.all & t2.all, c);
}

// ---------------------------------------------------------------- loop vocabulary for intersect/union/diff
pub open spec fn sv(x: &Rc<SemType>) -> SemType { **x }
pub open spec fn processed(m: Seq<PairItem>, k: int, c: u32) -> bool {
    exists|kk: int| 0 <= kk < k && kk < m.len() && item_code(#[trigger] m[kk]) == c
}
pub open spec fn codes_processed(s: PSeq, m: Seq<PairItem>, k: int) -> bool {
    forall|j: int| 0 <= j < s.len() ==> processed(m, k, pcode(#[trigger] s[j]))
}
pub open spec fn item_from(d1: PSeq, d2: PSeq, it: PairItem) -> bool {
    &&& (it.0 is Some || it.1 is Some)
    &&& (it.0 is Some ==> d1.contains(it.0->0))
    &&& (it.1 is Some ==> d2.contains(it.1->0))
    &&& (it.0 is Some && it.1 is Some ==> rtag(it.0->0) == rtag(it.1->0))
}
pub open spec fn items_from(d1: PSeq, d2: PSeq, m: Seq<PairItem>) -> bool {
    forall|k: int| 0 <= k < m.len() ==> item_from(d1, d2, #[trigger] m[k])
}
// holds for arbitrary (unsorted) sequences: this is what makes the `unreachable!` of
// ProperSubtypeOps::{intersect,union,diff} dead from these callers, unconditionally
pub proof fn lemma_merge_items(d1: PSeq, d2: PSeq, i1: int, i2: int, bits: u32)
    requires 0 <= i1, 0 <= i2
    ensures items_from(d1, d2, merge_from(d1, d2, i1, i2, bits))
    decreases (if i1 < d1.len() { d1.len() - i1 } else { 0 }) + (if i2 < d2.len() { d2.len() - i2 } else { 0 })
{
    let m = merge_from(d1, d2, i1, i2, bits);
    if i1 >= d1.len() {
        if i2 >= d2.len() {
        } else {
            lemma_merge_items(d1, d2, i1, i2 + 1, bits);
            let rest = merge_from(d1, d2, i1, i2 + 1, bits);
            assert(d2[i2] == d2[i2]);
            lemma_items_cons(d1, d2, (None, Some(d2[i2])), rest);
        }
    } else if i2 >= d2.len() {
        lemma_merge_items(d1, d2, i1 + 1, i2, bits);
        let rest = merge_from(d1, d2, i1 + 1, i2, bits);
        assert(d1[i1] == d1[i1]);
        lemma_items_cons(d1, d2, (Some(d1[i1]), None), rest);
    } else {
        let c1 = pcode(d1[i1]);
        let c2 = pcode(d2[i2]);
        assert(d1[i1] == d1[i1]);
        assert(d2[i2] == d2[i2]);
        if c1 == c2 {
            lemma_merge_items(d1, d2, i1 + 1, i2 + 1, bits);
            lemma_code_injective(rtag(d1[i1]), rtag(d2[i2]));
            lemma_items_cons(d1, d2, (Some(d1[i1]), Some(d2[i2])), merge_from(d1, d2, i1 + 1, i2 + 1, bits));
        } else if c1 < c2 {
            lemma_merge_items(d1, d2, i1 + 1, i2, bits);
            lemma_items_cons(d1, d2, (Some(d1[i1]), None), merge_from(d1, d2, i1 + 1, i2, bits));
        } else {
            lemma_merge_items(d1, d2, i1, i2 + 1, bits);
            lemma_items_cons(d1, d2, (None, Some(d2[i2])), merge_from(d1, d2, i1, i2 + 1, bits));
        }
    }
}
proof fn lemma_items_cons(d1: PSeq, d2: PSeq, x: PairItem, rest: Seq<PairItem>)
    requires items_from(d1, d2, rest), item_from(d1, d2, x)
    ensures items_from(d1, d2, seq![x] + rest)
{
    let m = seq![x] + rest;
    assert forall|k: int| 0 <= k < m.len() implies item_from(d1, d2, #[trigger] m[k]) by {
        if k == 0 { assert(m[0] == x); } else { assert(m[k] == rest[k - 1]); }
    }
}

pub broadcast proof fn lemma_processed_step(m: Seq<PairItem>, k: int, j: int, c: u32)
    requires 0 <= k < m.len(), j == k + 1
    ensures #![trigger processed(m, k, c), processed(m, j, c)]
        processed(m, j, c) == (processed(m, k, c) || item_code(m[k]) == c)
{
    if processed(m, j, c) {
        let kk = choose|kk: int| 0 <= kk < j && kk < m.len() && item_code(#[trigger] m[kk]) == c;
        if kk < k { assert(processed(m, k, c)); }
    }
    if processed(m, k, c) {
        let kk = choose|kk: int| 0 <= kk < k && kk < m.len() && item_code(#[trigger] m[kk]) == c;
        assert(0 <= kk < j && kk < m.len() && item_code(m[kk]) == c);
    }
    if item_code(m[k]) == c { assert(0 <= k < j && k < m.len() && item_code(m[k]) == c); }
}

pub open spec fn some_bits_upto(d: PSeq, k: int) -> u32 { some_bits(d.take(k)) }
pub broadcast proof fn lemma_some_bits_step(d: PSeq, k: int, j: int)
    requires 0 <= k < d.len(), j == k + 1
    ensures #![trigger some_bits_upto(d, k), some_bits_upto(d, j)]
        some_bits_upto(d, j) == some_bits_upto(d, k) | pcode(d[k])
{
    assert(d.take(j).drop_last() =~= d.take(k));
    assert(d.take(j).last() == d[k]);
}
pub broadcast proof fn lemma_some_bits_zero(d: PSeq)
    ensures #[trigger] some_bits_upto(d, 0) == 0u32 {}
pub broadcast proof fn lemma_some_bits_full(d: PSeq)
    ensures #[trigger] some_bits_upto(d, d.len() as int) == some_bits(d)
{
    assert(d.take(d.len() as int) =~= d);
}

// ---------------------------------------------------------------- the common shape of the three loops
pub open spec fn the_merge(t1: SemType, t2: SemType, bits: u32) -> Seq<PairItem> {
    merge_from(t1.subtype_data@, t2.subtype_data@, 0, 0, bits)
}
// op: 0 = intersect, 1 = union, 2 = diff
pub open spec fn tgt(op: int, t1: SemType, t2: SemType, v: Val) -> bool {
    if op == 0 { mem(t1, v) && mem(t2, v) } else if op == 1 { mem(t1, v) || mem(t2, v) } else { mem(t1, v) && !mem(t2, v) }
}
pub open spec fn op_all(op: int, t1: SemType, t2: SemType) -> u32 {
    if op == 0 { inter_all(t1, t2) } else if op == 1 { union_all(t1, t2) } else { diff_all(t1, t2) }
}
pub open spec fn op_bits(op: int, t1: SemType, t2: SemType) -> u32 {
    if op == 0 { inter_bits(t1, t2) } else if op == 1 { union_bits(t1, t2) } else { diff_bits(t1, t2) }
}
// what one merged pair must turn into, at the pair's tag
pub open spec fn pair_tgt(op: int, l1: Option<Rc<ProperSubtype>>, l2: Option<Rc<ProperSubtype>>, v: Val) -> bool {
    match (l1, l2) {
        (Some(a), None) => rmem(a, v),
        (None, Some(b)) => if op == 2 { !rmem(b, v) } else { rmem(b, v) },
        (Some(a), Some(b)) => if op == 0 { rmem(a, v) && rmem(b, v) } else if op == 1 { rmem(a, v) || rmem(b, v) } else { rmem(a, v) && !rmem(b, v) },
        (None, None) => false,
    }
}
pub open spec fn op_fact_at(op: int, t1: SemType, t2: SemType, v: Val) -> bool {
    let c = code_of(tag_of(v));
    let l1 = lookup(t1.subtype_data@, c);
    let l2 = lookup(t2.subtype_data@, c);
    &&& is_code(c)
    &&& bit(op_bits(op, t1, t2), c) ==> !bit(op_all(op, t1, t2), c) && (l1 is Some || l2 is Some) && tgt(op, t1, t2, v) == pair_tgt(op, l1, l2, v)
    &&& !bit(op_bits(op, t1, t2), c) ==> tgt(op, t1, t2, v) == bit(op_all(op, t1, t2), c)
}
pub open spec fn op_facts(op: int, t1: SemType, t2: SemType) -> bool {
    &&& (forall|v: Val| #![trigger mem(t1, v)] #![trigger mem(t2, v)] #![trigger tgt(op, t1, t2, v)] #![trigger op_fact_at(op, t1, t2, v)] op_fact_at(op, t1, t2, v))
    &&& all_in_val(op_all(op, t1, t2))
}
pub proof fn lemma_op_fact_at(op: int, t1: SemType, t2: SemType, v: Val)
    requires wf(t1), wf(t2), 0 <= op <= 2
    ensures op_fact_at(op, t1, t2, v)
{
    let c = code_of(tag_of(v));
    lemma_mem_char(t1, v);
    lemma_mem_char(t2, v);
    let s1 = some_bits(t1.subtype_data@);
    let s2 = some_bits(t2.subtype_data@);
    if op == 0 {
        bv_and(s1 | t1.all, s2 | t2.all, c);
        bv_or(s1, t1.all, c);
        bv_or(s2, t2.all, c);
        bv_and(t1.all, t2.all, c);
        bv_andnot((s1 | t1.all) & (s2 | t2.all), t1.all & t2.all, c);
    } else if op == 1 {
        bv_or(s1, s2, c);
        bv_or(t1.all, t2.all, c);
        bv_andnot(s1 | s2, t1.all | t2.all, c);
        bv_andnot((s1 | s2) & !(t1.all | t2.all), t1.all | t2.all, c);
    } else {
        bv_or(t2.all, s2, c);
        bv_andnot(t1.all, t2.all | s2, c);
        bv_or(t1.all, s1, c);
        bv_andnot(t1.all | s1, t2.all, c);
        bv_andnot((t1.all | s1) & !(t2.all), t1.all & !(t2.all | s2), c);
    }
}
proof fn bv_val_closed(a: u32, b: u32)
    by (bit_vector)
    requires (a & !0x3ffeu32) == 0, (b & !0x3ffeu32) == 0
    ensures ((a & b) & !0x3ffeu32) == 0, ((a | b) & !0x3ffeu32) == 0 {}
proof fn bv_val_sub(a: u32, b: u32)
    by (bit_vector)
    requires (a & !0x3ffeu32) == 0
    ensures ((a & !b) & !0x3ffeu32) == 0 {}
pub proof fn lemma_op_facts(op: int, t1: SemType, t2: SemType)
    requires wf(t1), wf(t2), 0 <= op <= 2
    ensures op_facts(op, t1, t2)
{
    assert forall|v: Val| #![trigger mem(t1, v)] #![trigger mem(t2, v)] #![trigger tgt(op, t1, t2, v)] #![trigger op_fact_at(op, t1, t2, v)] op_fact_at(op, t1, t2, v) by {
        lemma_op_fact_at(op, t1, t2, v);
    }
    bv_val_closed(t1.all, t2.all);
    bv_val_sub(t1.all, t2.all | some_bits(t2.subtype_data@));
}

pub open spec fn loop_inv(op: int, t1: SemType, t2: SemType, k: int, all: u32, s: PSeq) -> bool {
    let m = the_merge(t1, t2, op_bits(op, t1, t2));
    let all0 = op_all(op, t1, t2);
    &&& 0 <= k <= m.len()
    &&& all_in_val(all)
    &&& sorted_codes(s) && elems_ok(all, s) && codes_processed(s, m, k)
    &&& forall|c: u32| is_code(c) && !processed(m, k, c) ==> #[trigger] bit(all, c) == bit(all0, c)
    &&& forall|v: Val| processed(m, k, code_of(tag_of(v))) ==> #[trigger] memb(all, s, v) == tgt(op, t1, t2, v)
}

pub proof fn lemma_loop_init(op: int, t1: SemType, t2: SemType)
    requires wf(t1), wf(t2), 0 <= op <= 2
    ensures loop_inv(op, t1, t2, 0, op_all(op, t1, t2), Seq::empty())
{
    lemma_op_facts(op, t1, t2);
}

// facts about the k-th merged pair (sorted operands)
pub open spec fn step_pre(op: int, t1: SemType, t2: SemType, k: int, all: u32, s: PSeq) -> bool {
    let m = the_merge(t1, t2, op_bits(op, t1, t2));
    wf(t1) && wf(t2) && 0 <= op <= 2 && loop_inv(op, t1, t2, k, all, s) && k < m.len()
}
proof fn lemma_step_common(op: int, t1: SemType, t2: SemType, k: int, all: u32, s: PSeq)
    requires step_pre(op, t1, t2, k, all, s)
    ensures ({
        let m = the_merge(t1, t2, op_bits(op, t1, t2));
        let ck = item_code(m[k]);
        &&& is_code(ck) && !processed(m, k, ck) && !bit(all, ck) && bit(op_bits(op, t1, t2), ck)
        &&& m[k].0 == lookup(t1.subtype_data@, ck) && m[k].1 == lookup(t2.subtype_data@, ck)
        &&& forall|j: int| 0 <= j < s.len() ==> pcode(#[trigger] s[j]) < ck
        &&& forall|c: u32| #[trigger] processed(m, k + 1, c) == (processed(m, k, c) || c == ck)
        &&& op_facts(op, t1, t2)
    })
{
    let bits = op_bits(op, t1, t2);
    let m = the_merge(t1, t2, bits);
    let d1 = t1.subtype_data@;
    let d2 = t2.subtype_data@;
    lemma_merge_ok(d1, d2, bits);
    lemma_op_facts(op, t1, t2);
    let ck = item_code(m[k]);
    assert(item_ok(d1, d2, 0, 0, bits, m[k]));
    lemma_in_suffix_zero(d1, d2, ck);
    // ck is the code of an element, hence a code
    if has_code(d1, ck) { let j = choose|j: int| 0 <= j < d1.len() && pcode(#[trigger] d1[j]) == ck; lemma_code_of_is_code(rtag(d1[j])); }
    else { let j = choose|j: int| 0 <= j < d2.len() && pcode(#[trigger] d2[j]) == ck; lemma_code_of_is_code(rtag(d2[j])); }
    if processed(m, k, ck) {
        let kk = choose|kk: int| 0 <= kk < k && kk < m.len() && item_code(#[trigger] m[kk]) == ck;
        assert(item_code(m[kk]) < item_code(m[k]));
    }
    assert forall|j: int| 0 <= j < s.len() implies pcode(#[trigger] s[j]) < ck by {
        assert(processed(m, k, pcode(s[j])));
        let kk = choose|kk: int| 0 <= kk < k && kk < m.len() && item_code(#[trigger] m[kk]) == pcode(s[j]);
        assert(item_code(m[kk]) < item_code(m[k]));
    }
    assert forall|c: u32| #[trigger] processed(m, k + 1, c) == (processed(m, k, c) || c == ck) by {
        lemma_processed_step(m, k, k + 1, c);
    }
    // !bit(all, ck): ck is unprocessed so all agrees with all0 there, and bits excludes all0
    assert(bit(all, ck) == bit(op_all(op, t1, t2), ck));
    lemma_bits_exclude_all(op, t1, t2, ck);
}
proof fn lemma_bits_exclude_all(op: int, t1: SemType, t2: SemType, c: u32)
    requires is_code(c), 0 <= op <= 2, bit(op_bits(op, t1, t2), c)
    ensures !bit(op_all(op, t1, t2), c)
{
    let s1 = some_bits(t1.subtype_data@);
    let s2 = some_bits(t2.subtype_data@);
    if op == 0 { bv_andnot((s1 | t1.all) & (s2 | t2.all), t1.all & t2.all, c); }
    else if op == 1 { bv_andnot((s1 | s2) & !(t1.all | t2.all), t1.all | t2.all, c); }
    else { bv_andnot((t1.all | s1) & !(t2.all), t1.all & !(t2.all | s2), c); }
}

proof fn lemma_in_seq_other_code(s: PSeq, v: Val, ck: u32)
    requires forall|j: int| 0 <= j < s.len() ==> pcode(#[trigger] s[j]) < ck, code_of(tag_of(v)) == ck
    ensures !in_seq(s, v)
{
    if in_seq(s, v) {
        let i = choose|i: int| 0 <= i < s.len() && ptag(*#[trigger] s[i]) == tag_of(v) && mem_proper(*s[i], v);
        assert(pcode(s[i]) < ck);
    }
}

// a proper result is recorded for the k-th pair
pub proof fn lemma_step_push(op: int, t1: SemType, t2: SemType, k: int, all: u32, s: PSeq, p: Rc<ProperSubtype>)
    requires
        step_pre(op, t1, t2, k, all, s),
        pcode(p) == item_code(the_merge(t1, t2, op_bits(op, t1, t2))[k]),
        nontrivial_p(*p),
        forall|v: Val| code_of(tag_of(v)) == pcode(p) ==> #[trigger] rmem(p, v)
            == pair_tgt(op, the_merge(t1, t2, op_bits(op, t1, t2))[k].0, the_merge(t1, t2, op_bits(op, t1, t2))[k].1, v),
    ensures loop_inv(op, t1, t2, k + 1, all, s.push(p))
{
    let m = the_merge(t1, t2, op_bits(op, t1, t2));
    let ck = item_code(m[k]);
    let s2 = s.push(p);
    lemma_step_common(op, t1, t2, k, all, s);
    assert forall|v: Val| code_of(tag_of(v)) == pcode(p) implies #[trigger] rmem(p, v) == tgt(op, t1, t2, v) by {
        assert(op_fact_at(op, t1, t2, v));
    }
    assert forall|i: int, j: int| 0 <= i < j < s2.len() implies pcode(#[trigger] s2[i]) < pcode(#[trigger] s2[j]) by {
        if j < s.len() { assert(s2[i] == s[i] && s2[j] == s[j]); } else { assert(s2[j] == p); assert(s2[i] == s[i]); }
    }
    assert forall|i: int| 0 <= i < s2.len() implies !bit(all, pcode(#[trigger] s2[i])) && nontrivial_p(*s2[i]) by {
        if i < s.len() { assert(s2[i] == s[i]); } else { assert(s2[i] == p); }
    }
    assert forall|j: int| 0 <= j < s2.len() implies processed(m, k + 1, pcode(#[trigger] s2[j])) by {
        if j < s.len() { assert(s2[j] == s[j]); assert(processed(m, k, pcode(s[j]))); } else { assert(s2[j] == p); }
    }
    assert forall|v: Val| processed(m, k + 1, code_of(tag_of(v))) implies #[trigger] memb(all, s2, v) == tgt(op, t1, t2, v) by {
        lemma_in_seq_push(s, p, v);
        let c = code_of(tag_of(v));
        if c == ck {
            lemma_in_seq_other_code(s, v, ck);
            lemma_code_injective(rtag(p), tag_of(v));
            assert(rmem(p, v) == tgt(op, t1, t2, v));
        } else {
            assert(processed(m, k, c));
            lemma_code_injective(rtag(p), tag_of(v));
            assert(memb(all, s, v) == tgt(op, t1, t2, v));
        }
    }
}
// nothing is recorded for the k-th pair (result False: no value of that tag)
pub proof fn lemma_step_skip(op: int, t1: SemType, t2: SemType, k: int, all: u32, s: PSeq)
    requires
        step_pre(op, t1, t2, k, all, s),
        forall|v: Val| code_of(tag_of(v)) == item_code(the_merge(t1, t2, op_bits(op, t1, t2))[k]) ==>
            !#[trigger] pair_tgt(op, the_merge(t1, t2, op_bits(op, t1, t2))[k].0, the_merge(t1, t2, op_bits(op, t1, t2))[k].1, v),
    ensures loop_inv(op, t1, t2, k + 1, all, s)
{
    let m = the_merge(t1, t2, op_bits(op, t1, t2));
    let ck = item_code(m[k]);
    lemma_step_common(op, t1, t2, k, all, s);
    assert forall|v: Val| code_of(tag_of(v)) == ck implies !#[trigger] tgt(op, t1, t2, v) by {
        assert(op_fact_at(op, t1, t2, v));
        assert(!pair_tgt(op, m[k].0, m[k].1, v));
    }
    assert forall|j: int| 0 <= j < s.len() implies processed(m, k + 1, pcode(#[trigger] s[j])) by {
        assert(processed(m, k, pcode(s[j])));
    }
    assert forall|v: Val| processed(m, k + 1, code_of(tag_of(v))) implies #[trigger] memb(all, s, v) == tgt(op, t1, t2, v) by {
        let c = code_of(tag_of(v));
        if c == ck { lemma_in_seq_other_code(s, v, ck); } else { assert(processed(m, k, c)); assert(memb(all, s, v) == tgt(op, t1, t2, v)); }
    }
}
// the k-th pair yields the whole tag (result True): the tag's bit is added to `all`
pub proof fn lemma_step_full(op: int, t1: SemType, t2: SemType, k: int, all: u32, s: PSeq)
    requires
        step_pre(op, t1, t2, k, all, s),
        forall|v: Val| code_of(tag_of(v)) == item_code(the_merge(t1, t2, op_bits(op, t1, t2))[k]) ==>
            #[trigger] pair_tgt(op, the_merge(t1, t2, op_bits(op, t1, t2))[k].0, the_merge(t1, t2, op_bits(op, t1, t2))[k].1, v),
    ensures loop_inv(op, t1, t2, k + 1, all | item_code(the_merge(t1, t2, op_bits(op, t1, t2))[k]), s)
{
    let m = the_merge(t1, t2, op_bits(op, t1, t2));
    let ck = item_code(m[k]);
    let all2 = all | ck;
    lemma_step_common(op, t1, t2, k, all, s);
    assert forall|v: Val| code_of(tag_of(v)) == ck implies #[trigger] tgt(op, t1, t2, v) by {
        assert(op_fact_at(op, t1, t2, v));
        assert(pair_tgt(op, m[k].0, m[k].1, v));
    }
    bv_in_val(all, ck);
    assert forall|c: u32| is_code(c) implies #[trigger] bit(all2, c) == (bit(all, c) || c == ck) by {
        bv_or(all, ck, c);
        bv_self(ck, c);
    }
    assert forall|j: int| 0 <= j < s.len() implies processed(m, k + 1, pcode(#[trigger] s[j])) by {
        assert(processed(m, k, pcode(s[j])));
    }
    assert forall|i: int| 0 <= i < s.len() implies !bit(all2, pcode(#[trigger] s[i])) && nontrivial_p(*s[i]) by {
        lemma_code_of_is_code(rtag(s[i]));
        assert(pcode(s[i]) < ck);
    }
    assert forall|v: Val| processed(m, k + 1, code_of(tag_of(v))) implies #[trigger] memb(all2, s, v) == tgt(op, t1, t2, v) by {
        let c = code_of(tag_of(v));
        lemma_code_of_is_code(tag_of(v));
        if c == ck { } else { assert(processed(m, k, c)); assert(memb(all, s, v) == tgt(op, t1, t2, v)); }
    }
}
// after the last pair: the recorded data denote the operation at every tag
pub proof fn lemma_loop_final(op: int, t1: SemType, t2: SemType, all: u32, s: PSeq)
    requires wf(t1), wf(t2), 0 <= op <= 2,
        loop_inv(op, t1, t2, the_merge(t1, t2, op_bits(op, t1, t2)).len() as int, all, s),
    ensures wf_parts(all, s), forall|v: Val| #[trigger] memb(all, s, v) == tgt(op, t1, t2, v)
{
    let bits = op_bits(op, t1, t2);
    let m = the_merge(t1, t2, bits);
    let d1 = t1.subtype_data@;
    let d2 = t2.subtype_data@;
    let n = m.len() as int;
    lemma_merge_ok(d1, d2, bits);
    lemma_op_facts(op, t1, t2);
    assert forall|v: Val| #[trigger] memb(all, s, v) == tgt(op, t1, t2, v) by {
        let c = code_of(tag_of(v));
        lemma_op_fact_at(op, t1, t2, v);
        if !processed(m, n, c) {
            // no recorded datum has this tag
            if in_seq(s, v) {
                let i = choose|i: int| 0 <= i < s.len() && ptag(*#[trigger] s[i]) == tag_of(v) && mem_proper(*s[i], v);
                assert(processed(m, n, pcode(s[i])));
            }
            assert(bit(all, c) == bit(op_all(op, t1, t2), c));
            if bit(bits, c) {
                lemma_in_suffix_zero(d1, d2, c);
                assert(in_suffix(d1, d2, 0, 0, c));
                let k = choose|k: int| 0 <= k < m.len() && item_code(#[trigger] m[k]) == c;
                assert(0 <= k < n && k < m.len() && item_code(m[k]) == c);
            }
        }
    }
}

// broadcast forms of the three steps: they fire on the pair "invariant at k / invariant at j = k+1"
pub broadcast proof fn lemma_step_push_b(op: int, t1: SemType, t2: SemType, k: int, j: int, all: u32, s: PSeq, p: Rc<ProperSubtype>)
    requires
        step_pre(op, t1, t2, k, all, s), j == k + 1,
        pcode(p) == item_code(the_merge(t1, t2, op_bits(op, t1, t2))[k]),
        nontrivial_p(*p),
        forall|v: Val| code_of(tag_of(v)) == pcode(p) ==> #[trigger] rmem(p, v)
            == pair_tgt(op, the_merge(t1, t2, op_bits(op, t1, t2))[k].0, the_merge(t1, t2, op_bits(op, t1, t2))[k].1, v),
    ensures #![trigger loop_inv(op, t1, t2, k, all, s), loop_inv(op, t1, t2, j, all, s.push(p))]
        loop_inv(op, t1, t2, j, all, s.push(p))
{
    lemma_step_push(op, t1, t2, k, all, s, p);
}
pub broadcast proof fn lemma_step_skip_b(op: int, t1: SemType, t2: SemType, k: int, j: int, all: u32, s: PSeq)
    requires
        step_pre(op, t1, t2, k, all, s), j == k + 1,
        forall|v: Val| code_of(tag_of(v)) == item_code(the_merge(t1, t2, op_bits(op, t1, t2))[k]) ==>
            !#[trigger] pair_tgt(op, the_merge(t1, t2, op_bits(op, t1, t2))[k].0, the_merge(t1, t2, op_bits(op, t1, t2))[k].1, v),
    ensures #![trigger loop_inv(op, t1, t2, k, all, s), loop_inv(op, t1, t2, j, all, s)]
        loop_inv(op, t1, t2, j, all, s)
{
    lemma_step_skip(op, t1, t2, k, all, s);
}
pub broadcast proof fn lemma_loop_final_b(op: int, t1: SemType, t2: SemType, n: int, all: u32, s: PSeq)
    requires wf(t1), wf(t2), 0 <= op <= 2, n == the_merge(t1, t2, op_bits(op, t1, t2)).len(),
        #[trigger] loop_inv(op, t1, t2, n, all, s),
    ensures wf_parts(all, s), forall|v: Val| #[trigger] memb(all, s, v) == tgt(op, t1, t2, v)
{
    lemma_loop_final(op, t1, t2, all, s);
}
// ---------------------------------------------------------------- robustness adapter: the loops are proved for
// any bit expressions that agree, tag bit by tag bit, with the reference expressions op_bits / op_all.
// (Requiring `some == op_bits(..)` made the proof depend on how the masks are spelled; dropping an
// idempotent `& !all`, or commuting an `|`, is not a change of meaning.)
pub open spec fn bits_equiv(x: u32, y: u32) -> bool {
    forall|c: u32| #![trigger bit(x, c)] #![trigger bit(y, c)] is_code(c) ==> bit(x, c) == bit(y, c)
}
pub proof fn lemma_merge_equiv(d1: PSeq, d2: PSeq, i1: int, i2: int, x: u32, y: u32)
    requires bits_equiv(x, y)
    ensures merge_from(d1, d2, i1, i2, x) == merge_from(d1, d2, i1, i2, y)
    decreases (if i1 < d1.len() { d1.len() - i1 } else { 0 }) + (if i2 < d2.len() { d2.len() - i2 } else { 0 })
{
    if i1 < 0 || i2 < 0 {
    } else if i1 >= d1.len() {
        if i2 >= d2.len() {
        } else {
            lemma_merge_equiv(d1, d2, i1, i2 + 1, x, y);
            lemma_code_of_is_code(rtag(d2[i2]));
            assert(bit(x, pcode(d2[i2])) == bit(y, pcode(d2[i2])));
        }
    } else if i2 >= d2.len() {
        lemma_merge_equiv(d1, d2, i1 + 1, i2, x, y);
        lemma_code_of_is_code(rtag(d1[i1]));
        assert(bit(x, pcode(d1[i1])) == bit(y, pcode(d1[i1])));
    } else {
        let c1 = pcode(d1[i1]);
        let c2 = pcode(d2[i2]);
        lemma_code_of_is_code(rtag(d1[i1]));
        lemma_code_of_is_code(rtag(d2[i2]));
        assert(bit(x, c1) == bit(y, c1));
        assert(bit(x, c2) == bit(y, c2));
        if c1 == c2 { lemma_merge_equiv(d1, d2, i1 + 1, i2 + 1, x, y); }
        else if c1 < c2 { lemma_merge_equiv(d1, d2, i1 + 1, i2, x, y); }
        else { lemma_merge_equiv(d1, d2, i1, i2 + 1, x, y); }
    }
}
pub broadcast proof fn lemma_the_merge_equiv_b(t1: SemType, t2: SemType, x: u32, y: u32)
    requires #[trigger] bits_equiv(x, y)
    ensures #[trigger] the_merge(t1, t2, x) == the_merge(t1, t2, y)
{
    lemma_merge_equiv(t1.subtype_data@, t2.subtype_data@, 0, 0, x, y);
}
// the invariant only looks at the tag bits of `all`
pub proof fn lemma_loop_inv_equiv(op: int, t1: SemType, t2: SemType, k: int, a: u32, a2: u32, s: PSeq)
    requires loop_inv(op, t1, t2, k, a, s), bits_equiv(a, a2), all_in_val(a2)
    ensures loop_inv(op, t1, t2, k, a2, s)
{
    let m = the_merge(t1, t2, op_bits(op, t1, t2));
    assert forall|i: int| 0 <= i < s.len() implies !bit(a2, pcode(#[trigger] s[i])) && nontrivial_p(*s[i]) by {
        lemma_code_of_is_code(rtag(s[i]));
        assert(bit(a, pcode(s[i])) == bit(a2, pcode(s[i])));
    }
    assert forall|c: u32| is_code(c) && !processed(m, k, c) implies #[trigger] bit(a2, c) == bit(op_all(op, t1, t2), c) by {
        assert(bit(a, c) == bit(a2, c));
    }
    assert forall|v: Val| processed(m, k, code_of(tag_of(v))) implies #[trigger] memb(a2, s, v) == tgt(op, t1, t2, v) by {
        lemma_code_of_is_code(tag_of(v));
        assert(bit(a, code_of(tag_of(v))) == bit(a2, code_of(tag_of(v))));
        assert(memb(a, s, v) == tgt(op, t1, t2, v));
    }
}
pub broadcast proof fn lemma_loop_init_b(op: int, t1: SemType, t2: SemType, a: u32)
    requires wf(t1), wf(t2), 0 <= op <= 2, bits_equiv(op_all(op, t1, t2), a), all_in_val(a)
    ensures #[trigger] loop_inv(op, t1, t2, 0, a, Seq::empty())
{
    lemma_loop_init(op, t1, t2);
    lemma_loop_inv_equiv(op, t1, t2, 0, op_all(op, t1, t2), a, Seq::empty());
}
// "a whole tag became full"
pub broadcast proof fn lemma_step_full_b(op: int, t1: SemType, t2: SemType, k: int, j: int, all: u32, all2: u32, s: PSeq)
    requires
        step_pre(op, t1, t2, k, all, s), j == k + 1,
        all2 == all | item_code(the_merge(t1, t2, op_bits(op, t1, t2))[k]) || all2 == item_code(the_merge(t1, t2, op_bits(op, t1, t2))[k]) | all,
        forall|v: Val| code_of(tag_of(v)) == item_code(the_merge(t1, t2, op_bits(op, t1, t2))[k]) ==>
            #[trigger] pair_tgt(op, the_merge(t1, t2, op_bits(op, t1, t2))[k].0, the_merge(t1, t2, op_bits(op, t1, t2))[k].1, v),
    ensures #![trigger loop_inv(op, t1, t2, k, all, s), loop_inv(op, t1, t2, j, all2, s)]
        loop_inv(op, t1, t2, j, all2, s)
{
    let ck = item_code(the_merge(t1, t2, op_bits(op, t1, t2))[k]);
    assert((all | ck) == (ck | all)) by (bit_vector);
    lemma_step_full(op, t1, t2, k, all, s);
}
// early exit, for any spelling of the two bit-sets
pub proof fn lemma_early_eq(op: int, t1: SemType, t2: SemType)
    requires wf(t1), wf(t2), 0 <= op <= 2
    ensures forall|some: u32, all: u32| #![trigger bits_equiv(some, op_bits(op, t1, t2)), bits_equiv(op_all(op, t1, t2), all)]
        bits_equiv(some, op_bits(op, t1, t2)) && bits_equiv(op_all(op, t1, t2), all) && some == 0
            ==> (forall|v: Val| #[trigger] memb(all, Seq::empty(), v) == tgt(op, t1, t2, v))
{
    lemma_op_facts(op, t1, t2);
    assert forall|some: u32, all: u32| #![trigger bits_equiv(some, op_bits(op, t1, t2)), bits_equiv(op_all(op, t1, t2), all)]
        bits_equiv(some, op_bits(op, t1, t2)) && bits_equiv(op_all(op, t1, t2), all) && some == 0
            implies (forall|v: Val| #[trigger] memb(all, Seq::empty(), v) == tgt(op, t1, t2, v)) by {
        assert forall|v: Val| #[trigger] memb(all, Seq::empty(), v) == tgt(op, t1, t2, v) by {
            let c = code_of(tag_of(v));
            lemma_op_fact_at(op, t1, t2, v);
            lemma_bit_zero(c);
            lemma_code_of_is_code(tag_of(v));
            assert(bit(some, c) == bit(op_bits(op, t1, t2), c));
            assert(bit(op_all(op, t1, t2), c) == bit(all, c));
        }
    }
}

// ---------------------------------------------------------------- leaf constructors
pub broadcast proof fn lemma_seq_one_contains<A>(x: A, y: A)
    ensures #[trigger] seq![x].contains(y) == (x == y)
{
    if x == y { assert(seq![x][0] == y); }
}
// "t is the type of the one string literal lit" (named, so that a caller of `string_const` can speak about the literal
// it passed without a name for the temporary)
pub open spec fn str_lit_type(t: SemType, lit: StringLitOrFormat) -> bool { forall|v: Val| #[trigger] mem(t, v) == (v == Val::Str(lit)) }
// a type made of a single proper subtype and no full tag
pub broadcast proof fn lemma_mem_single(t: SemType, v: Val)
    requires t.all == 0, t.subtype_data@.len() == 1
    ensures #[trigger] mem(t, v) == (ptag(*t.subtype_data@[0]) == tag_of(v) && mem_proper(*t.subtype_data@[0], v))
{
    lemma_bit_zero(code_of(tag_of(v)));
    let d = t.subtype_data@;
    if rtag(d[0]) == tag_of(v) && rmem(d[0], v) { assert(0 <= 0 < d.len() && rtag(d[0]) == tag_of(v) && rmem(d[0], v)); }
    if in_seq(d, v) {
        let i = choose|i: int| 0 <= i < d.len() && ptag(*#[trigger] d[i]) == tag_of(v) && mem_proper(*d[i], v);
        assert(i == 0);
    }
}
pub broadcast proof fn lemma_wf_single(t: SemType)
    requires t.all == 0, t.subtype_data@.len() == 1, nontrivial_p(*t.subtype_data@[0])
    ensures #[trigger] wf(t)
{
    lemma_val_in_val();
    assert forall|i: int| 0 <= i < t.subtype_data@.len() implies !bit(t.all, pcode(#[trigger] t.subtype_data@[i])) && nontrivial_p(*t.subtype_data@[i]) by {
        lemma_bit_zero(pcode(t.subtype_data@[i]));
    }
}
// a type that is one full tag
pub broadcast proof fn lemma_mem_basic(t: SemType, v: Val)
    requires is_code(t.all), t.subtype_data@.len() == 0
    ensures #[trigger] mem(t, v) == (code_of(tag_of(v)) == t.all)
{
    lemma_bit_self(t.all, code_of(tag_of(v)));
}
pub broadcast proof fn lemma_basic_wf(t: SemType)
    requires is_code(t.all), t.subtype_data@.len() == 0
    ensures #[trigger] wf(t), flat(t)
{
    bv_in_val(0u32, t.all);
    assert((0u32 | t.all) == t.all) by (bit_vector);
    lemma_val_in_val();
}

// ---------------------------------------------------------------- complement, emptiness, subtyping
pub proof fn lemma_val()
    ensures VAL == 0x3ffeu32
{
    assert(VAL == 0x3ffeu32) by (compute);
}
pub broadcast proof fn lemma_unknown_is_everything(t: SemType, v: Val)
    requires t.all == 0x3ffeu32, t.subtype_data@.len() == 0
    ensures #[trigger] mem(t, v)
{
    let c = code_of(tag_of(v));
    assert((0x3ffeu32 & c) != 0) by (bit_vector)
        requires c == 2 || c == 4 || c == 8 || c == 16 || c == 32 || c == 64 || c == 128 || c == 256 || c == 512 || c == 1024 || c == 2048 || c == 4096 || c == 8192;
}
pub broadcast proof fn lemma_bits_only_wf(t: SemType)
    requires all_in_val(t.all), t.subtype_data@.len() == 0
    ensures #[trigger] wf(t)
{}
pub broadcast proof fn lemma_bits_only_flat(t: SemType)
    requires t.subtype_data@.len() == 0
    ensures #[trigger] flat(t)
{}
pub proof fn lemma_val_in_val()
    ensures all_in_val(0x3ffeu32), all_in_val(0u32)
{
    assert((0x3ffeu32 & !0x3ffeu32) == 0) by (bit_vector);
    assert((0u32 & !0x3ffeu32) == 0) by (bit_vector);
}
pub broadcast proof fn lemma_in_val_and(a: u32, b: u32)
    requires all_in_val(a)
    ensures #[trigger] all_in_val(a & b)
{
    assert((a & !0x3ffeu32) == 0 ==> ((a & b) & !0x3ffeu32) == 0) by (bit_vector);
}
pub broadcast proof fn lemma_in_val_or(a: u32, b: u32)
    requires all_in_val(a), all_in_val(b)
    ensures #[trigger] all_in_val(a | b)
{
    assert((a & !0x3ffeu32) == 0 && (b & !0x3ffeu32) == 0 ==> ((a | b) & !0x3ffeu32) == 0) by (bit_vector);
}
pub broadcast proof fn lemma_in_val_code(t: SubTypeTag)
    ensures all_in_val(#[trigger] code_of(t))
{
    let c = code_of(t);
    assert((c & !0x3ffeu32) == 0) by (bit_vector)
        requires c == 2 || c == 4 || c == 8 || c == 16 || c == 32 || c == 64 || c == 128 || c == 256 || c == 512 || c == 1024 || c == 2048 || c == 4096 || c == 8192;
}
// a non-empty bit-set inside VAL contains one of the 13 tags listed by SubTypeTag::all()
pub broadcast proof fn lemma_some_tag(all: u32)
    requires #[trigger] all_in_val(all), all != 0
    ensures exists|j: int| 0 <= j < 13 && bit(all, code_of(#[trigger] all_tags()[j]))
{
    bv_val_nonzero_has_code(all);
    let t = all_tags();
    if (all & 8) != 0 { assert(bit(all, code_of(t[0]))); }
    else if (all & 2) != 0 { assert(bit(all, code_of(t[1]))); }
    else if (all & 4) != 0 { assert(bit(all, code_of(t[2]))); }
    else if (all & 64) != 0 { assert(bit(all, code_of(t[3]))); }
    else if (all & 16) != 0 { assert(bit(all, code_of(t[4]))); }
    else if (all & 32) != 0 { assert(bit(all, code_of(t[5]))); }
    else if (all & 128) != 0 { assert(bit(all, code_of(t[6]))); }
    else if (all & 256) != 0 { assert(bit(all, code_of(t[7]))); }
    else if (all & 512) != 0 { assert(bit(all, code_of(t[8]))); }
    else if (all & 1024) != 0 { assert(bit(all, code_of(t[9]))); }
    else if (all & 2048) != 0 { assert(bit(all, code_of(t[10]))); }
    else if (all & 4096) != 0 { assert(bit(all, code_of(t[11]))); }
    else { assert(bit(all, code_of(t[12]))); }
}
pub open spec fn sem_empty(t: SemType, defs: Defs) -> bool {
    t.all == 0 && forall|i: int| 0 <= i < t.subtype_data@.len() ==> proper_empty(*#[trigger] t.subtype_data@[i], defs)
}
// what `diff` promises about its result d = a \ b (proved above for the real diff)
pub open spec fn diff_res(a: SemType, b: SemType, d: SemType) -> bool {
    (all_in_val(a.all) ==> all_in_val(d.all))
    && (wf(a) && wf(b) && flat(a) && flat(b) ==> wf(d) && flat(d) && forall|v: Val| #[trigger] mem(d, v) == (mem(a, v) && !mem(b, v)))
}
