// ---- prelude/anyhow.rs : R2 - `anyhow` cannot be linked into a single-file Verus run.
// Only the *payload* of errors is dropped; which paths return Err is preserved.
pub struct Error;
impl Error {
    pub fn new() -> Error { Error }
}
pub type Result<T> = core::result::Result<T, Error>;
