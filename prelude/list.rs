// ---- prelude/list.rs : the list-kind emptiness decider (bdd.rs:297-507): safety and the positive fold
use vstd::std_specs::cmp::OrdSpec;

// T1: std::cmp::max on a lawfully ordered type
pub assume_specification<T: Ord>[ std::cmp::max ](a: T, b: T) -> (r: T)
    ensures vstd::laws_cmp::obeys_cmp::<T>() ==> r == (if a.cmp_spec(&b) == Ordering::Greater { a } else { b });

// T1: `Clone::clone` reached through the trait (Vec<Rc<T>>::clone, Option<Rc<T>>::clone) on an Rc returns an
// equal Rc (vstd specifies Rc::clone itself this way; the trait-dispatched form is not connected to it)
#[verifier::external_body]
pub broadcast proof fn axiom_rc_cloned<T>(a: Rc<T>, b: Rc<T>)
    requires #[trigger] cloned::<Rc<T>>(a, b)
    ensures a == b
{}
pub broadcast proof fn lemma_sts_ok_push(s: Seq<Rc<SemType>>, t: Rc<SemType>)
    requires sts_ok(s), st_ok(t)
    ensures #[trigger] sts_ok(s.push(t))
{
    assert forall|i: int| 0 <= i < s.push(t).len() implies st_ok(#[trigger] s.push(t)[i]) by { if i < s.len() { assert(s.push(t)[i] == s[i]); } else { assert(s.push(t)[i] == t); } }
}
pub broadcast proof fn lemma_sts_ok_update(s: Seq<Rc<SemType>>, k: int, t: Rc<SemType>)
    requires sts_ok(s), st_ok(t), 0 <= k < s.len()
    ensures #[trigger] sts_ok(s.update(k, t))
{
    assert forall|i: int| 0 <= i < s.update(k, t).len() implies st_ok(#[trigger] s.update(k, t)[i]) by { if i != k { assert(s.update(k, t)[i] == s[i]); } }
}

// R5 (contract-only): table lookups of the context. The tables are part of the context's "Defs",
// which emptiness checks leave unchanged (see prelude/subtype.rs).
pub uninterp spec fn list_tbl_defined(defs: Defs, i: usize) -> bool;
pub uninterp spec fn set_tbl_defined(defs: Defs, i: usize) -> bool;
pub uninterp spec fn list_tbl(defs: Defs, i: usize) -> ListAtomic;
pub uninterp spec fn set_tbl(defs: Defs, i: usize) -> ListAtomic;
impl SemTypeContext {
    #[verifier::external_body]
    pub fn get_list_atomic(&self, idx: usize) -> (r: Rc<ListAtomic>)
        requires list_tbl_defined(ctx_defs(*self), idx)
        ensures *r == list_tbl(ctx_defs(*self), idx)
    { unimplemented!() }
    #[verifier::external_body]
    pub fn get_set_atomic(&self, idx: usize) -> (r: Rc<ListAtomic>)
        requires set_tbl_defined(ctx_defs(*self), idx)
        ensures *r == set_tbl(ctx_defs(*self), idx)
    { unimplemented!() }
}

pub open spec fn latom_ok(defs: Defs, a: Atom) -> bool {
    match a {
        Atom::List(i) => list_tbl_defined(defs, i),
        Atom::Set(i) => set_tbl_defined(defs, i),
        _ => false,
    }
}
pub open spec fn lt_of(defs: Defs, a: Atom) -> ListAtomic {
    match a {
        Atom::List(i) => list_tbl(defs, i),
        Atom::Set(i) => set_tbl(defs, i),
        _ => arbitrary(),
    }
}
// the negative / positive chains only mention list or Set atoms that are defined
spec fn chain_ok(defs: Defs, c: Option<Rc<Conjunction>>) -> bool
    decreases c
{
    match c {
        None => true,
        Some(n) => latom_ok(defs, n.atom) && chain_ok(defs, n.next),
    }
}
pub open spec fn st_ok(t: Rc<SemType>) -> bool { all_in_val(t.all) }
pub open spec fn sts_ok(s: Seq<Rc<SemType>>) -> bool { forall|i: int| 0 <= i < s.len() ==> st_ok(#[trigger] s[i]) }
pub open spec fn lt_ok(lt: ListAtomic) -> bool { sts_ok(lt.prefix_items@) && st_ok(lt.items) }
// every component type stored in the tables keeps `all` within VAL
pub open spec fn tbl_ok(defs: Defs) -> bool {
    &&& forall|i: usize| list_tbl_defined(defs, i) ==> lt_ok(#[trigger] list_tbl(defs, i))
    &&& forall|i: usize| set_tbl_defined(defs, i) ==> lt_ok(#[trigger] set_tbl(defs, i))
}
