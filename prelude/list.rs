// ---- prelude/list.rs : the list-kind emptiness decider (bdd.rs:297-507): safety and the positive fold
use vstd::std_specs::cmp::OrdSpec;

// T1: std::cmp::max on a lawfully ordered type
pub assume_specification<T: Ord>[ std::cmp::max ](a: T, b: T) -> (r: T)
    ensures vstd::laws_cmp::obeys_cmp::<T>() ==> r == (if a.cmp_spec(&b) == Ordering::Greater { a } else { b });

// T1: `Clone::clone` reached through the trait (Vec<Rc<T>>::clone, Option<Rc<T>>::clone) on an Rc returns an
// equal Rc (vstd specifies Rc::clone itself this way; the trait-dispatched form is not connected to it)
#[verifier::external_body]
pub broadcast proof fn axiom_rc_cloned<T>(a: Rc<T>, b: Rc<T>)
    requires #[trigger] cloned::<Rc<T>>(a, b)
    ensures a == b
{}
// T1: a Vec of pointer-sized elements holds fewer than isize::MAX / 8 of them (Rust's allocation limit), so small
// constants can be added to its length without overflow. (Without this, a harmless `len + 1` in the code is an
// overflow obligation that cannot be discharged - a false alarm for C04.)
#[verifier::external_body]
pub broadcast proof fn axiom_vec_rc_len(v: Vec<Rc<SemType>>)
    ensures #[trigger] v@.len() <= usize::MAX / 16
{}
pub broadcast proof fn lemma_sts_ok_push(s: Seq<Rc<SemType>>, t: Rc<SemType>)
    requires sts_ok(s), st_ok(t)
    ensures #[trigger] sts_ok(s.push(t))
{
    assert forall|i: int| 0 <= i < s.push(t).len() implies st_ok(#[trigger] s.push(t)[i]) by { if i < s.len() { assert(s.push(t)[i] == s[i]); } else { assert(s.push(t)[i] == t); } }
}
pub broadcast proof fn lemma_sts_ok_update(s: Seq<Rc<SemType>>, k: int, t: Rc<SemType>)
    requires sts_ok(s), st_ok(t), 0 <= k < s.len()
    ensures #[trigger] sts_ok(s.update(k, t))
{
    assert forall|i: int| 0 <= i < s.update(k, t).len() implies st_ok(#[trigger] s.update(k, t)[i]) by { if i != k { assert(s.update(k, t)[i] == s[i]); } }
}

// R5 (contract-only): table lookups of the context. The tables are part of the context's "Defs",
// which emptiness checks leave unchanged (see prelude/subtype.rs).
pub uninterp spec fn list_tbl_defined(defs: Defs, i: usize) -> bool;
pub uninterp spec fn set_tbl_defined(defs: Defs, i: usize) -> bool;
pub uninterp spec fn list_tbl(defs: Defs, i: usize) -> ListAtomic;
pub uninterp spec fn set_tbl(defs: Defs, i: usize) -> ListAtomic;
impl SemTypeContext {
    #[verifier::external_body]
    pub fn get_list_atomic(&self, idx: usize) -> (r: Rc<ListAtomic>)
        requires list_tbl_defined(ctx_defs(*self), idx)
        ensures *r == list_tbl(ctx_defs(*self), idx)
    { unimplemented!() }
    #[verifier::external_body]
    pub fn get_set_atomic(&self, idx: usize) -> (r: Rc<ListAtomic>)
        requires set_tbl_defined(ctx_defs(*self), idx)
        ensures *r == set_tbl(ctx_defs(*self), idx)
    { unimplemented!() }
}

pub open spec fn latom_ok(defs: Defs, a: Atom) -> bool {
    match a {
        Atom::List(i) => list_tbl_defined(defs, i),
        Atom::Set(i) => set_tbl_defined(defs, i),
        _ => false,
    }
}
pub open spec fn lt_of(defs: Defs, a: Atom) -> ListAtomic {
    match a {
        Atom::List(i) => list_tbl(defs, i),
        Atom::Set(i) => set_tbl(defs, i),
        _ => arbitrary(),
    }
}
// the negative / positive chains only mention list or Set atoms that are defined
spec fn chain_ok(defs: Defs, c: Option<Rc<Conjunction>>) -> bool
    decreases c
{
    match c {
        None => true,
        Some(n) => latom_ok(defs, n.atom) && chain_ok(defs, n.next),
    }
}
pub open spec fn st_ok(t: Rc<SemType>) -> bool { all_in_val(t.all) }
pub open spec fn sts_ok(s: Seq<Rc<SemType>>) -> bool { forall|i: int| 0 <= i < s.len() ==> st_ok(#[trigger] s[i]) }
pub open spec fn lt_ok(lt: ListAtomic) -> bool { sts_ok(lt.prefix_items@) && st_ok(lt.items) }
// every component type stored in the tables keeps `all` within VAL
pub open spec fn tbl_ok(defs: Defs) -> bool {
    &&& forall|i: usize| list_tbl_defined(defs, i) ==> lt_ok(#[trigger] list_tbl(defs, i))
    &&& forall|i: usize| set_tbl_defined(defs, i) ==> lt_ok(#[trigger] set_tbl(defs, i))
}

// ---------------------------------------------------------------- the positive fold (C05)
// list_formula_is_empty first folds all positive tuple atoms of a clause into ONE shape
// (prefix_items, items). What that shape must be: position by position the intersection of the
// atoms' item types (an atom shorter than the position contributes its rest type), the rest type
// is the intersection of the rest types, and the prefix is as long as the longest atom.
spec fn chain_atoms(c: Option<Rc<Conjunction>>) -> Seq<Atom>
    decreases c
{
    match c {
        None => Seq::empty(),
        Some(n) => seq![n.atom] + chain_atoms(n.next),
    }
}
pub open spec fn item_at(lt: ListAtomic, i: int) -> Rc<SemType> {
    if 0 <= i < lt.prefix_items@.len() { lt.prefix_items@[i] } else { lt.items }
}
pub open spec fn items_mem(defs: Defs, atoms: Seq<Atom>, i: int, v: Val) -> bool {
    forall|k: int| 0 <= k < atoms.len() ==> mem(*item_at(lt_of(defs, #[trigger] atoms[k]), i), v)
}
pub open spec fn rest_mem(defs: Defs, atoms: Seq<Atom>, v: Val) -> bool {
    forall|k: int| 0 <= k < atoms.len() ==> mem(*lt_of(defs, #[trigger] atoms[k]).items, v)
}
pub open spec fn max_len(defs: Defs, atoms: Seq<Atom>) -> nat
    decreases atoms.len()
{
    if atoms.len() == 0 { 0 } else {
        let m = max_len(defs, atoms.drop_last());
        let l = lt_of(defs, atoms.last()).prefix_items@.len();
        if l > m { l } else { m }
    }
}
pub open spec fn rcmem(t: Rc<SemType>, v: Val) -> bool { mem(*t, v) }
pub open spec fn good(t: Rc<SemType>) -> bool { wf(*t) && flat(*t) }
pub open spec fn goods(s: Seq<Rc<SemType>>) -> bool { forall|i: int| 0 <= i < s.len() ==> good(#[trigger] s[i]) }
pub open spec fn lt_good(lt: ListAtomic) -> bool { goods(lt.prefix_items@) && good(lt.items) }
// hypothesis of the semantic clauses: the component types stored in the tables are well-formed and format-free
pub open spec fn tbl_good(defs: Defs) -> bool {
    &&& forall|i: usize| list_tbl_defined(defs, i) ==> lt_good(#[trigger] list_tbl(defs, i))
    &&& forall|i: usize| set_tbl_defined(defs, i) ==> lt_good(#[trigger] set_tbl(defs, i))
}
// positions < upto already intersected with atom d, the others not yet
#[verifier::opaque]
pub open spec fn pre_sem(defs: Defs, atoms: Seq<Atom>, pre: Seq<Rc<SemType>>, upto: int, d: Atom) -> bool {
    forall|j: int, v: Val| 0 <= j < pre.len() ==> #[trigger] mem(*pre[j], v)
        == (items_mem(defs, atoms, j, v) && (j < upto ==> mem(*item_at(lt_of(defs, d), j), v)))
}
#[verifier::opaque]
pub open spec fn fold_ok(defs: Defs, atoms: Seq<Atom>, pre: Seq<Rc<SemType>>, items: Rc<SemType>) -> bool {
    &&& pre.len() == max_len(defs, atoms)
    &&& goods(pre) && good(items)
    &&& forall|j: int, v: Val| 0 <= j < pre.len() ==> #[trigger] mem(*pre[j], v) == items_mem(defs, atoms, j, v)
    &&& forall|v: Val| #[trigger] mem(*items, v) == rest_mem(defs, atoms, v)
}
spec fn done_atoms(pos: Option<Rc<Conjunction>>, p: Option<Rc<Conjunction>>) -> Seq<Atom> {
    chain_atoms(pos).take(chain_atoms(pos).len() - chain_atoms(p).len())
}
spec fn split_ok(pos: Option<Rc<Conjunction>>, p: Option<Rc<Conjunction>>) -> bool {
    chain_atoms(p).len() <= chain_atoms(pos).len() && chain_atoms(pos) == done_atoms(pos, p) + chain_atoms(p)
}

pub broadcast proof fn lemma_items_mem_push(defs: Defs, atoms: Seq<Atom>, d: Atom, i: int, v: Val)
    ensures #[trigger] items_mem(defs, atoms.push(d), i, v) == (items_mem(defs, atoms, i, v) && mem(*item_at(lt_of(defs, d), i), v))
{
    let a2 = atoms.push(d);
    if items_mem(defs, a2, i, v) {
        assert(a2[atoms.len() as int] == d);
        assert forall|k: int| 0 <= k < atoms.len() implies mem(*item_at(lt_of(defs, #[trigger] atoms[k]), i), v) by { assert(a2[k] == atoms[k]); }
    }
    if items_mem(defs, atoms, i, v) && rcmem(item_at(lt_of(defs, d), i), v) {
        assert forall|k: int| 0 <= k < a2.len() implies mem(*item_at(lt_of(defs, #[trigger] a2[k]), i), v) by {
            if k < atoms.len() { assert(a2[k] == atoms[k]); } else { assert(a2[k] == d); }
        }
    }
}
pub broadcast proof fn lemma_rest_mem_push(defs: Defs, atoms: Seq<Atom>, d: Atom, v: Val)
    ensures #[trigger] rest_mem(defs, atoms.push(d), v) == (rest_mem(defs, atoms, v) && mem(*lt_of(defs, d).items, v))
{
    let a2 = atoms.push(d);
    if rest_mem(defs, a2, v) {
        assert(a2[atoms.len() as int] == d);
        assert forall|k: int| 0 <= k < atoms.len() implies mem(*lt_of(defs, #[trigger] atoms[k]).items, v) by { assert(a2[k] == atoms[k]); }
    }
    if rest_mem(defs, atoms, v) && rcmem(lt_of(defs, d).items, v) {
        assert forall|k: int| 0 <= k < a2.len() implies mem(*lt_of(defs, #[trigger] a2[k]).items, v) by {
            if k < atoms.len() { assert(a2[k] == atoms[k]); } else { assert(a2[k] == d); }
        }
    }
}
pub broadcast proof fn lemma_max_len_push(defs: Defs, atoms: Seq<Atom>, d: Atom)
    ensures #[trigger] max_len(defs, atoms.push(d)) == (if lt_of(defs, d).prefix_items@.len() > max_len(defs, atoms) { lt_of(defs, d).prefix_items@.len() } else { max_len(defs, atoms) })
{
    assert(atoms.push(d).drop_last() =~= atoms);
    assert(atoms.push(d).last() == d);
}
// at or beyond the longest prefix every atom contributes its rest type
pub broadcast proof fn lemma_items_beyond(defs: Defs, atoms: Seq<Atom>, i: int, v: Val)
    requires i >= max_len(defs, atoms)
    ensures #[trigger] items_mem(defs, atoms, i, v) == rest_mem(defs, atoms, v)
    decreases atoms.len()
{
    if atoms.len() > 0 {
        let a = atoms.drop_last();
        let d = atoms.last();
        assert(atoms =~= a.push(d));
        lemma_max_len_push(defs, a, d);
        lemma_items_beyond(defs, a, i, v);
        lemma_items_mem_push(defs, a, d, i, v);
        lemma_rest_mem_push(defs, a, d, v);
    }
}
pub broadcast proof fn lemma_fold_empty(defs: Defs, i: int, v: Val)
    ensures #[trigger] items_mem(defs, Seq::empty(), i, v), #[trigger] rest_mem(defs, Seq::empty(), v), max_len(defs, Seq::empty()) == 0
{}
pub broadcast proof fn lemma_goods_push(s: Seq<Rc<SemType>>, t: Rc<SemType>)
    requires goods(s), good(t)
    ensures #[trigger] goods(s.push(t))
{
    assert forall|i: int| 0 <= i < s.push(t).len() implies good(#[trigger] s.push(t)[i]) by { if i < s.len() { assert(s.push(t)[i] == s[i]); } else { assert(s.push(t)[i] == t); } }
}
pub broadcast proof fn lemma_goods_update(s: Seq<Rc<SemType>>, k: int, t: Rc<SemType>)
    requires goods(s), good(t), 0 <= k < s.len()
    ensures #[trigger] goods(s.update(k, t))
{
    assert forall|i: int| 0 <= i < s.update(k, t).len() implies good(#[trigger] s.update(k, t)[i]) by { if i != k { assert(s.update(k, t)[i] == s[i]); } }
}
proof fn lemma_done_step(pos: Option<Rc<Conjunction>>, p: Option<Rc<Conjunction>>, q: Option<Rc<Conjunction>>, a: Atom)
    requires split_ok(pos, p), chain_atoms(p) == seq![a] + chain_atoms(q)
    ensures split_ok(pos, q), done_atoms(pos, q) == done_atoms(pos, p).push(a)
{
    let c = chain_atoms(pos);
    let dp = done_atoms(pos, p);
    assert(chain_atoms(p).len() == chain_atoms(q).len() + 1);
    assert(c =~= dp.push(a) + chain_atoms(q));
    assert(done_atoms(pos, q) =~= dp.push(a));
}

// ---- the transitions of the fold, one lemma each (the predicates are opaque in the function body)
pub proof fn lemma_fold_none(defs: Defs, pre: Seq<Rc<SemType>>, items: Rc<SemType>)
    requires pre.len() == 0, items.all == 0x3ffeu32, items.subtype_data@.len() == 0
    ensures fold_ok(defs, Seq::empty(), pre, items)
{
    reveal(fold_ok);
    broadcast use {lemma_unknown_is_everything, lemma_bits_only_wf, lemma_bits_only_flat};
    lemma_val_in_val();
    assert(wf(*items));
    assert(flat(*items));
    assert forall|v: Val| #[trigger] mem(*items, v) == rest_mem(defs, Seq::empty(), v) by { lemma_unknown_is_everything(*items, v); }
}
pub proof fn lemma_fold_first(defs: Defs, a: Atom, ltr: Rc<ListAtomic>)
    requires *ltr == lt_of(defs, a), lt_good(*ltr)
    ensures fold_ok(defs, Seq::<Atom>::empty().push(a), ltr.prefix_items@, ltr.items)
{
    let lt = lt_of(defs, a);
    reveal(fold_ok);
    let atoms = Seq::<Atom>::empty().push(a);
    lemma_max_len_push(defs, Seq::empty(), a);
    assert forall|j: int, v: Val| 0 <= j < lt.prefix_items@.len() implies #[trigger] mem(*lt.prefix_items@[j], v) == items_mem(defs, atoms, j, v) by {
        lemma_items_mem_push(defs, Seq::empty(), a, j, v);
    }
    assert forall|v: Val| #[trigger] mem(*lt.items, v) == rest_mem(defs, atoms, v) by {
        lemma_rest_mem_push(defs, Seq::empty(), a, v);
    }
}
pub proof fn lemma_fold_start_atom(defs: Defs, atoms: Seq<Atom>, pre: Seq<Rc<SemType>>, items: Rc<SemType>, d: Atom)
    requires fold_ok(defs, atoms, pre, items)
    ensures pre_sem(defs, atoms, pre, 0, d), goods(pre), good(items), pre.len() == max_len(defs, atoms)
{
    reveal(fold_ok);
    reveal(pre_sem);
}
pub proof fn lemma_fold_pad(defs: Defs, atoms: Seq<Atom>, pre0: Seq<Rc<SemType>>, pre: Seq<Rc<SemType>>, items: Rc<SemType>, d: Atom)
    requires fold_ok(defs, atoms, pre0, items), pre.len() >= max_len(defs, atoms), pre_sem(defs, atoms, pre, 0, d), goods(pre)
    ensures pre_sem(defs, atoms, pre.push(items), 0, d), goods(pre.push(items))
{
    reveal(fold_ok);
    reveal(pre_sem);
    let p2 = pre.push(items);
    lemma_goods_push(pre, items);
    assert forall|j: int, v: Val| 0 <= j < p2.len() implies #[trigger] mem(*p2[j], v)
        == (items_mem(defs, atoms, j, v) && (j < 0 ==> mem(*item_at(lt_of(defs, d), j), v))) by {
        if j < pre.len() { assert(p2[j] == pre[j]); } else { assert(p2[j] == items); lemma_items_beyond(defs, atoms, j, v); }
    }
}
pub proof fn lemma_fold_update(defs: Defs, atoms: Seq<Atom>, pre: Seq<Rc<SemType>>, d: Atom, i: int, t: Rc<SemType>)
    requires pre_sem(defs, atoms, pre, i, d), goods(pre), 0 <= i < pre.len(), good(t),
        forall|v: Val| #[trigger] mem(*t, v) == (mem(*pre[i], v) && mem(*item_at(lt_of(defs, d), i), v)),
    ensures pre_sem(defs, atoms, pre.update(i, t), i + 1, d), goods(pre.update(i, t))
{
    reveal(pre_sem);
    let p2 = pre.update(i, t);
    lemma_goods_update(pre, i, t);
    assert forall|j: int, v: Val| 0 <= j < p2.len() implies #[trigger] mem(*p2[j], v)
        == (items_mem(defs, atoms, j, v) && (j < i + 1 ==> mem(*item_at(lt_of(defs, d), j), v))) by {
        if j == i { assert(p2[j] == t); assert(mem(*pre[i], v) == (items_mem(defs, atoms, i, v) && (i < i ==> mem(*item_at(lt_of(defs, d), i), v)))); }
        else { assert(p2[j] == pre[j]); assert(mem(*pre[j], v) == (items_mem(defs, atoms, j, v) && (j < i ==> mem(*item_at(lt_of(defs, d), j), v)))); }
    }
}
pub proof fn lemma_fold_finish(defs: Defs, atoms: Seq<Atom>, pre0: Seq<Rc<SemType>>, pre: Seq<Rc<SemType>>, items: Rc<SemType>, items2: Rc<SemType>, d: Atom)
    requires fold_ok(defs, atoms, pre0, items), pre_sem(defs, atoms, pre, pre.len() as int, d), goods(pre), good(items2),
        pre.len() == (if lt_of(defs, d).prefix_items@.len() > max_len(defs, atoms) { lt_of(defs, d).prefix_items@.len() } else { max_len(defs, atoms) }),
        forall|v: Val| #[trigger] mem(*items2, v) == (mem(*items, v) && mem(*lt_of(defs, d).items, v)),
    ensures fold_ok(defs, atoms.push(d), pre, items2)
{
    reveal(fold_ok);
    reveal(pre_sem);
    lemma_max_len_push(defs, atoms, d);
    assert forall|j: int, v: Val| 0 <= j < pre.len() implies #[trigger] mem(*pre[j], v) == items_mem(defs, atoms.push(d), j, v) by {
        lemma_items_mem_push(defs, atoms, d, j, v);
        assert(mem(*pre[j], v) == (items_mem(defs, atoms, j, v) && (j < pre.len() ==> mem(*item_at(lt_of(defs, d), j), v))));
    }
    assert forall|v: Val| #[trigger] mem(*items2, v) == rest_mem(defs, atoms.push(d), v) by {
        lemma_rest_mem_push(defs, atoms, d, v);
    }
}
proof fn lemma_done_first(pos: Option<Rc<Conjunction>>, p: Option<Rc<Conjunction>>, a: Atom)
    requires chain_atoms(pos) == seq![a] + chain_atoms(p)
    ensures split_ok(pos, p), done_atoms(pos, p) == Seq::<Atom>::empty().push(a)
{
    assert(done_atoms(pos, p) =~= Seq::<Atom>::empty().push(a));
    assert(chain_atoms(pos) =~= done_atoms(pos, p) + chain_atoms(p));
}
proof fn lemma_done_all(pos: Option<Rc<Conjunction>>)
    ensures done_atoms(pos, None) == chain_atoms(pos), split_ok(pos, None)
{
    assert(chain_atoms(None) =~= Seq::<Atom>::empty());
    assert(done_atoms(pos, None) =~= chain_atoms(pos));
    assert(chain_atoms(pos) =~= done_atoms(pos, None) + chain_atoms(None));
}
