// ---- prelude/list_access.rs : the member type of one list atom at a set of number keys (C07: tuple indexed access)

// R17: `X.to_f64() as i64` -> `n_trunc(X)`. Verus gives no meaning to an f64 -> i64 cast; the index a number literal
// stands for is an uninterpreted function of the literal, and `n_trunc`'s body is the expression it replaces.
pub uninterp spec fn n_i64(n: N) -> i64;
#[verifier::external_body]
fn n_trunc(n: &N) -> (r: i64)
    ensures r == n_i64(*n)
{ n.to_f64() as i64 }

// T1 (allocation limit): a slice of 8-byte elements has at most isize::MAX / 8 of them
#[verifier::external_body]
pub broadcast proof fn axiom_slice_rc_len(s: &[Rc<SemType>])
    ensures #[trigger] s@.len() <= usize::MAX / 16
{}

// T2: the key type is the real definition (outside verus!); its derived Clone returns an equal value
#[verifier::external_type_specification]
struct ExListNumberKey(ListNumberKey);
pub assume_specification[ <ListNumberKey as Clone>::clone ](x: &ListNumberKey) -> (r: ListNumberKey)
    ensures r == *x;
pub open spec fn sin_val(t: Rc<SemType>) -> bool { all_in_val(t.all) }
pub open spec fn items_in_val(prefix: Seq<Rc<SemType>>, items: SemType) -> bool {
    all_in_val(items.all) && forall|i: int| 0 <= i < prefix.len() ==> sin_val(#[trigger] prefix[i])
}
pub broadcast proof fn lemma_in_val_zero(x: u32)
    requires x == 0
    ensures #[trigger] all_in_val(x)
{ assert((0u32 & !0x3ffeu32) == 0) by (bit_vector); }
// the key set: the listed indices (allowed) or all the others (excluded)
// membership / well-formedness through an Rc (proof code cannot move out of an Rc)
pub open spec fn smem(t: Rc<SemType>, v: Val) -> bool { mem(*t, v) }
pub open spec fn swf(t: Rc<SemType>) -> bool { wf(*t) && flat(*t) }
pub open spec fn key_listed(values: Seq<N>, i: i64) -> bool { exists|k: int| 0 <= k < values.len() && n_i64(#[trigger] values[k]) == i }
pub open spec fn key_has(allowed: bool, values: Seq<N>, i: i64) -> bool { allowed == key_listed(values, i) }
// the key set has an index >= n. An excluded (cofinite) set has one beyond every bound.
pub open spec fn key_beyond(allowed: bool, values: Seq<N>, n: int) -> bool {
    !allowed || exists|k: int| 0 <= k < values.len() && n_i64(#[trigger] values[k]) >= n
}
// what the property is stated for: a listed key set names at least one index >= 0 (a key set without one selects
// nothing from any list; the code then still returns the rest type of a list atom without prefix)
pub open spec fn key_sane(allowed: bool, values: Seq<N>) -> bool {
    allowed ==> key_beyond(allowed, values, 0)
}
pub open spec fn items_wf(prefix: Seq<Rc<SemType>>, items: SemType) -> bool {
    wf(items) && flat(items) && forall|i: int| 0 <= i < prefix.len() ==> swf(#[trigger] prefix[i])
}
// v belongs to the item type of one of the first n positions that the key set selects
pub open spec fn picked_upto(prefix: Seq<Rc<SemType>>, allowed: bool, values: Seq<N>, n: int, v: Val) -> bool {
    exists|i: int| 0 <= i < n && i < prefix.len() && key_has(allowed, values, i as i64) && smem(#[trigger] prefix[i], v)
}
pub open spec fn any_upto(prefix: Seq<Rc<SemType>>, n: int, v: Val) -> bool {
    exists|i: int| 0 <= i < n && i < prefix.len() && smem(#[trigger] prefix[i], v)
}
// the member type of the list atom (prefix..., ...items[]) at the keys: a value belongs to it iff it belongs to the
// item type of a selected position
spec fn member_at(prefix: Seq<Rc<SemType>>, items: SemType, key: ListNumberKey, v: Val) -> bool {
    match key {
        ListNumberKey::N { allowed, values } =>
            picked_upto(prefix, allowed, values@, prefix.len() as int, v) || (key_beyond(allowed, values@, prefix.len() as int) && mem(items, v)),
        ListNumberKey::True => any_upto(prefix, prefix.len() as int, v) || mem(items, v),
    }
}
pub closed spec fn key_ok(key: ListNumberKey) -> bool {
    match key { ListNumberKey::N { allowed, values } => key_sane(allowed, values@), ListNumberKey::True => true }
}
pub broadcast proof fn lemma_picked_step(prefix: Seq<Rc<SemType>>, allowed: bool, values: Seq<N>, n: int, v: Val)
    requires 0 <= n < prefix.len()
    ensures #[trigger] picked_upto(prefix, allowed, values, n + 1, v)
        == (picked_upto(prefix, allowed, values, n, v) || (key_has(allowed, values, n as i64) && smem(prefix[n], v)))
{
    if picked_upto(prefix, allowed, values, n + 1, v) {
        let i = choose|i: int| 0 <= i < n + 1 && i < prefix.len() && key_has(allowed, values, i as i64) && smem(#[trigger] prefix[i], v);
        if i < n { assert(picked_upto(prefix, allowed, values, n, v)); }
    }
    if picked_upto(prefix, allowed, values, n, v) {
        let i = choose|i: int| 0 <= i < n && i < prefix.len() && key_has(allowed, values, i as i64) && smem(#[trigger] prefix[i], v);
        assert(0 <= i < n + 1 && smem(prefix[i], v));
    }
    if key_has(allowed, values, n as i64) && smem(prefix[n], v) { assert(0 <= n < n + 1 && smem(prefix[n], v)); }
}
pub broadcast proof fn lemma_any_step(prefix: Seq<Rc<SemType>>, n: int, v: Val)
    requires 0 <= n < prefix.len()
    ensures #[trigger] any_upto(prefix, n + 1, v) == (any_upto(prefix, n, v) || smem(prefix[n], v))
{
    if any_upto(prefix, n + 1, v) {
        let i = choose|i: int| 0 <= i < n + 1 && i < prefix.len() && smem(#[trigger] prefix[i], v);
        if i < n { assert(any_upto(prefix, n, v)); }
    }
    if any_upto(prefix, n, v) {
        let i = choose|i: int| 0 <= i < n && i < prefix.len() && smem(#[trigger] prefix[i], v);
        assert(0 <= i < n + 1 && smem(prefix[i], v));
    }
    if smem(prefix[n], v) { assert(0 <= n < n + 1 && smem(prefix[n], v)); }
}
// the empty type: well-formed, format-free, no member
pub broadcast proof fn lemma_never_all(t: SemType)
    requires t.all == 0, t.subtype_data@.len() == 0
    ensures #![trigger wf(t)] #![trigger flat(t)] wf(t) && flat(t)
{
    assert((0u32 & !0x3ffeu32) == 0) by (bit_vector);
}
pub broadcast proof fn lemma_never_mem(t: SemType, v: Val)
    requires t.all == 0, t.subtype_data@.len() == 0
    ensures !#[trigger] mem(t, v)
{
    lemma_bit_zero(code_of(tag_of(v)));
}
