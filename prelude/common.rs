// ---- prelude/common.rs : crate header, imports, trusted std specifications (T1-T3 in DESIGN.md)
#![feature(allocator_api)]
#![allow(unused_imports, dead_code, unused_variables, unused_mut, unreachable_code, unused_parens)]
use vstd::prelude::*;
use std::rc::Rc;
use std::cmp::Ordering;
use std::collections::{BTreeMap, BTreeSet};
use vstd::std_specs::cmp::PartialEqSpec;
use vstd::std_specs::iter::IteratorSpec;

verus! {

// T2: `Rc<T>: PartialEq` delegates to `T: PartialEq` (alloc::rc, `impl<T: PartialEq> PartialEq for Rc<T>`)
pub assume_specification<T: PartialEq + ?Sized, A: std::alloc::Allocator>[ <Rc<T, A> as PartialEq<Rc<T, A>>>::eq ](a: &Rc<T, A>, b: &Rc<T, A>) -> (r: bool)
    ensures T::obeys_eq_spec() ==> r == (**a).eq_spec(&**b);

// T1: `Rc::as_ref` is deref (alloc::rc, `impl<T> AsRef<T> for Rc<T>`)
pub assume_specification<T: ?Sized, A: std::alloc::Allocator>[ <Rc<T, A> as AsRef<T>>::as_ref ](a: &Rc<T, A>) -> (r: &T)
    ensures r == &**a;

// R1: `.into()` into an `Rc` is `Rc::from(t)` = `Rc::new(t)`; vstd cannot specify it from outside
// `alloc` (orphan rule), so the token `.into()` is renamed `.vinto()` and resolved here.
pub trait VInto<T> {
    fn vinto(self) -> (r: T);
}
impl<T> VInto<Rc<T>> for T {
    fn vinto(self) -> (r: Rc<T>)
        ensures *r == self
    {
        Rc::new(self)
    }
}
