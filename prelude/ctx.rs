// ---- prelude/ctx.rs : the atom tables of the real `SemTypeContext` (semtype.rs:356-565)
// Here the context is the REAL struct (the other units thread an opaque stand-in through); its four definition tables
// are what the contract-only lookups `get_*_atomic` of the other units (R5) read.
} // verus!  (opaque stand-in for the foreign key type of the *_runtype_ref_memo tables, plain Rust)
#[derive(Debug, Clone, PartialEq, Eq, PartialOrd, Ord)]
pub struct RuntypeUUID { _opaque: u8 }
verus! {
#[verifier::external_type_specification]
#[verifier::external_body]
pub struct ExRuntypeUUID2(RuntypeUUID);

// an atom index is defined in a table
pub open spec fn tbl_some<T>(v: Seq<Option<Rc<T>>>, i: usize) -> bool { i < v.len() && v[i as int] is Some }
// the four definition tables
pub open spec fn tables_of(ctx: SemTypeContext) -> (Seq<Option<Rc<MappingAtomicType>>>, Seq<Option<Rc<ListAtomic>>>, Seq<Option<Rc<MappingAtomicType>>>, Seq<Option<Rc<ListAtomic>>>) {
    (ctx.mapping_definitions@, ctx.list_definitions@, ctx.map_definitions@, ctx.set_definitions@)
}
