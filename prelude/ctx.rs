// ---- prelude/ctx.rs : the atom tables of the real `SemTypeContext` (semtype.rs:356-565)
// Here the context is the REAL struct (the other units thread an opaque stand-in through); its four definition tables
// are what the contract-only lookups `get_*_atomic` of the other units (R5) read.
} // verus!  (opaque stand-in for the foreign key type of the *_runtype_ref_memo tables, plain Rust)
#[derive(Debug, Clone, PartialEq, Eq, PartialOrd, Ord)]
pub struct RuntypeUUID { _opaque: u8 }
verus! {
#[verifier::external_type_specification]
#[verifier::external_body]
pub struct ExRuntypeUUID2(RuntypeUUID);

// an atom index is defined in a table
pub open spec fn tbl_some<T>(v: Seq<Option<Rc<T>>>, i: usize) -> bool { i < v.len() && v[i as int] is Some }
// the four definition tables
pub open spec fn tables_of(ctx: SemTypeContext) -> (Seq<Option<Rc<MappingAtomicType>>>, Seq<Option<Rc<ListAtomic>>>, Seq<Option<Rc<MappingAtomicType>>>, Seq<Option<Rc<ListAtomic>>>) {
    (ctx.mapping_definitions@, ctx.list_definitions@, ctx.map_definitions@, ctx.set_definitions@)
}

// ---- the memo wrapper of the object / Map decider, `mapping_is_empty_handle_recusrsion` (dnf.rs:120-161), on the REAL
// context: the co-inductive cut and what may be memoised (F8)
// T2 (assumed): the derived `Ord` on `Rc<Vec<Conjunction>>` is a lawful total order (what vstd's BTreeMap
// specifications ask of the key type)
#[verifier::external_body]
pub proof fn axiom_rcdnf_cmp()
    ensures vstd::laws_cmp::obeys_cmp::<Rc<Dnf>>()
{}
// every entry present at entry is still there, unchanged, at exit (entries met again are answered from the table;
// only entries a call adds itself are ever rewritten or removed)
pub open spec fn memo_kept<K>(o: Map<K, BddMemoEmptyRef>, n: Map<K, BddMemoEmptyRef>) -> bool {
    forall|k: K| #![trigger o.contains_key(k)] #![trigger n.contains_key(k)] o.contains_key(k) ==> n.contains_key(k) && n[k] == o[k]
}
// the three steps of a wrapper (mark, decide, finalise or drop) keep the entries that were there before the mark
pub broadcast proof fn lemma_memo_kept_mark<K>(o: Map<K, BddMemoEmptyRef>, k: K, v: BddMemoEmptyRef, n: Map<K, BddMemoEmptyRef>)
    requires #[trigger] memo_kept(o.insert(k, v), n), !o.contains_key(k)
    ensures memo_kept(o, n), n.contains_key(k), n[k] == v, memo_kept(o, n.remove(k)), forall|w: BddMemoEmptyRef| memo_kept(o, #[trigger] n.insert(k, w))
{
    assert(o.insert(k, v).contains_key(k));
    assert forall|j: K| o.contains_key(j) implies n.contains_key(j) && n[j] == o[j] && j != k by { assert(o.insert(k, v).contains_key(j)); }
}
// the answer a memo entry stands for: a diagram met again while it is being decided counts as empty
pub open spec fn memo_answer(e: MemoEmpty) -> IsEmptyStatus {
    match e { MemoEmpty::True => IsEmptyStatus::IsEmpty, MemoEmpty::False(ev) => ev, MemoEmpty::Undefined => IsEmptyStatus::IsEmpty }
}
// the state the decider proper is started in: the diagram marked "in progress", one more check pending, nothing else touched
pub open spec fn memo_started(o: SemTypeContext, c: SemTypeContext, dnf: Rc<Dnf>) -> bool {
    c.pending_empty_checks == o.pending_empty_checks + 1
    && c.mapping_memo_dnf@ == o.mapping_memo_dnf@.insert(dnf, BddMemoEmptyRef(MemoEmpty::Undefined))
    && tables_of(c) == tables_of(o)
}
// R5 (contract-only, ASSUMED): the decider proper (U8 proves its reduction on the opaque context); here: it leaves the
// number of pending checks, the entries of the memo table it was started with and the definition tables as they were
pub uninterp spec fn mie_res(dnf: Dnf, is_map: bool, c: SemTypeContext) -> Result<IsEmptyStatus>;
#[verifier::external_body]
fn mapping_is_empty_impl(dnf: Rc<Dnf>, ctx: &mut SemTypeContext, is_map: bool) -> (r: Result<IsEmptyStatus>)
    ensures final(ctx).pending_empty_checks == old(ctx).pending_empty_checks,
        memo_kept(old(ctx).mapping_memo_dnf@, final(ctx).mapping_memo_dnf@),
        tables_of(*final(ctx)) == tables_of(*old(ctx)),
        r == mie_res(*dnf, is_map, *old(ctx)),
{ unimplemented!() }
// R23: `M.get_mut(K).expect(MSG).0 = E;`
#[verifier::external_body]
fn vmemo_set<K: Ord>(m: &mut BTreeMap<K, BddMemoEmptyRef>, k: &K, e: MemoEmpty)
    requires old(m)@.contains_key(*k)
    ensures final(m)@ == old(m)@.insert(*k, BddMemoEmptyRef(e))
{ m.get_mut(k).expect("bdd should be cached by now").0 = e; }
// what the wrapper does with the table (o: at entry, n: at exit)
pub open spec fn memo_post(dnf: Rc<Dnf>, is_map: bool, o: SemTypeContext, n: SemTypeContext, res: Result<IsEmptyStatus>) -> bool {
    if o.mapping_memo_dnf@.contains_key(dnf) {
        // met again: answered from the table, nothing written
        res == Ok::<IsEmptyStatus, Error>(memo_answer(o.mapping_memo_dnf@[dnf].0)) && n.mapping_memo_dnf@ == o.mapping_memo_dnf@
    } else {
        (exists|c: SemTypeContext| memo_started(o, c, dnf) && res == #[trigger] mie_res(*dnf, is_map, c))
        && (match res {
            // "empty" reached while an enclosing check is still running is provisional: NOT memoised
            Ok(IsEmptyStatus::IsEmpty) => if o.pending_empty_checks > 0 { !n.mapping_memo_dnf@.contains_key(dnf) }
                                          else { n.mapping_memo_dnf@.contains_key(dnf) && n.mapping_memo_dnf@[dnf].0 is True },
            Ok(IsEmptyStatus::NotEmpty) => n.mapping_memo_dnf@.contains_key(dnf) && n.mapping_memo_dnf@[dnf].0 == MemoEmpty::False(IsEmptyStatus::NotEmpty),
            // an error leaves no "in progress" marker behind
            Err(_) => !n.mapping_memo_dnf@.contains_key(dnf),
        })
    }
}

// ---- the same wrapper around the list decider, `list_is_empty` (bdd.rs:543-583); the table is keyed by the diagram
#[verifier::external_body]
pub proof fn axiom_bdd_cmp()
    ensures vstd::laws_cmp::obeys_cmp::<Bdd>()
{}
// R25: `(**X).clone()` on a diagram. T2 (assumed): the derived `Clone` on `Bdd` returns an equal diagram (this Verus gives
// the `Clone` derived on an enum declared inside `verus!` no specification and accepts none)
#[verifier::external_body]
fn vclone_bdd(x: &Bdd) -> (r: Bdd)
    ensures r == *x
{ x.clone() }
pub open spec fn lmemo_started(o: SemTypeContext, c: SemTypeContext, b: Bdd) -> bool {
    c.pending_empty_checks == o.pending_empty_checks + 1
    && c.list_memo@ == o.list_memo@.insert(b, BddMemoEmptyRef(MemoEmpty::Undefined))
    && tables_of(c) == tables_of(o)
}
// R24: `bdd_every_result(B, P, N, list_formula_is_empty, C)` - a call that passes a function item where the callee takes
// a function pointer (no such types in Verus) - is named `vlist_every(B, P, N, C)`; its body is that call. ASSUMED (R5):
// the walk over the diagram (U7 proves the per-path function it applies) leaves the pending count, the entries of the
// memo table it was started with and the definition tables as they were
pub uninterp spec fn lie_res(b: Bdd, c: SemTypeContext) -> Result<IsEmptyStatus>;
#[verifier::external_body]
fn vlist_every(bdd: &Rc<Bdd>, pos: &Option<Rc<Conjunction>>, neg: &Option<Rc<Conjunction>>, builder: &mut SemTypeContext) -> (r: Result<IsEmptyStatus>)
    ensures final(builder).pending_empty_checks == old(builder).pending_empty_checks,
        memo_kept(old(builder).list_memo@, final(builder).list_memo@),
        tables_of(*final(builder)) == tables_of(*old(builder)),
        pos is None && neg is None ==> r == lie_res(**bdd, *old(builder)),
{ unimplemented!() }
pub open spec fn lmemo_post(b: Bdd, o: SemTypeContext, n: SemTypeContext, res: Result<IsEmptyStatus>) -> bool {
    if o.list_memo@.contains_key(b) {
        res == Ok::<IsEmptyStatus, Error>(memo_answer(o.list_memo@[b].0)) && n.list_memo@ == o.list_memo@
    } else {
        (exists|c: SemTypeContext| lmemo_started(o, c, b) && res == #[trigger] lie_res(b, c))
        && (match res {
            Ok(IsEmptyStatus::IsEmpty) => if o.pending_empty_checks > 0 { !n.list_memo@.contains_key(b) }
                                          else { n.list_memo@.contains_key(b) && n.list_memo@[b].0 is True },
            Ok(IsEmptyStatus::NotEmpty) => n.list_memo@.contains_key(b) && n.list_memo@[b].0 == MemoEmpty::False(IsEmptyStatus::NotEmpty),
            Err(_) => !n.list_memo@.contains_key(b),
        })
    }
}

// ---- the two entries `dnf_mapping_is_empty` / `dnf_map_is_empty` (dnf.rs:163-171): the diagram's DNF handed to the wrapper
pub open spec fn dnf_of(b: Bdd, d: Dnf) -> bool { forall|env: Env| #[trigger] dnf_eval(d@, env) == eval(b, env) }
pub open spec fn entry_post(b: Bdd, is_map: bool, o: SemTypeContext, n: SemTypeContext, res: Result<IsEmptyStatus>) -> bool {
    exists|d: Rc<Dnf>| dnf_of(b, *d) && #[trigger] memo_post(d, is_map, o, n, res)
}
