import json,sys,glob
import jsonschema
jsonschema.validate(json.load(open('/verif/MANIFEST.json')),json.load(open('/root/.vp/MANIFEST.schema.json')))
for f in glob.glob('/verif/evidence/*.json'):
    jsonschema.validate(json.load(open(f)),json.load(open('/root/.vp/EVIDENCE.schema.json')))
    print('ok',f)
print('manifest valid')
