#!/usr/bin/env python3
"""Driver: extract -> verus -> classify -> (replay search) -> report + evidence.

usage: vcheck.py <property-id> [--tier quick|thorough] [--replay FILE] [--rebaseline]
Exit codes: 0 property held on everything the contracts cover; 1 VIOLATION; 2 undecided/broken.
"""
from __future__ import annotations
import argparse, json, os, re, subprocess, sys, time, hashlib, shutil, concurrent.futures
ROOT = os.path.dirname(os.path.dirname(os.path.abspath(__file__)))
sys.path.insert(0, os.path.join(ROOT, "tools"))
import extract as X

REPO = X.REPO
BUILD = os.path.join(ROOT, "build")
VERUS = shutil.which("verus") or "/usr/local/bin/verus"
RLIMIT = 20          # first attempt (Verus default is 10)
RLIMIT_RETRY = 80    # second attempt for a failed baseline obligation

# property -> units (order = layering, bottom first)
PROPERTY_UNITS = {
    "C06": ["bdd_ops", "dnf", "proper_subtype", "semtype_ops"],
    "C04": ["bdd_ops", "dnf", "proper_subtype", "semtype_ops", "to_schema", "list_shape", "mapping_dnf", "access", "list_access", "ctx_tables", "mapping_steps"],
    "C05": ["semtype_ops", "list_shape", "mapping_dnf", "ctx_tables", "mapping_steps"],
    "C07": ["dnf", "to_schema", "list_access", "access"],
}
# obligation kind -> which property "owns" it when no explicit tag is given
SEMANTIC = ("C06", "C05", "C07")


def unit_spec(u):
    return os.path.join(ROOT, "contracts", u + ".vspec")


def unit_closure(units):
    """the units and, first, everything they include (each function is verified in its defining unit's run;
    an including unit sees only the contracts of included functions)"""
    out = []

    def visit(u):
        if u in out or not os.path.exists(unit_spec(u)):
            return
        for i in X.parse_spec(unit_spec(u)).includes:
            visit(i)
        out.append(u)
    for u in units:
        visit(u)
    return out


def available_units(pid):
    return unit_closure([u for u in PROPERTY_UNITS[pid] if os.path.exists(unit_spec(u))])


# ----------------------------------------------------------------------------- running verus
def run_verus(path, rlimit=RLIMIT, seed=None, only_fn=None, expand=False, timeout=1800):
    cmd = [VERUS, "--edition", "2024", os.path.basename(path), "--output-json", "--time-expanded",
           "--multiple-errors", "20", "--error-format=json", "--rlimit", str(rlimit),
           "--no-report-long-running"]
    if seed is not None:
        cmd += ["--smt-option", "smt.random_seed=%d" % seed]
    if only_fn:
        cmd += ["--verify-root", "--verify-function", only_fn]
    if expand:
        cmd += ["--expand-errors"]
    t0 = time.time()
    try:
        p = subprocess.run(cmd, cwd=os.path.dirname(path), capture_output=True, text=True, timeout=timeout)
        out, err, rc = p.stdout, p.stderr, p.returncode
    except subprocess.TimeoutExpired as e:
        out, err, rc = "", "TIMEOUT after %ds" % timeout, 124
    wall = time.time() - t0
    try:
        js = json.loads(out) if out.strip() else {}
    except json.JSONDecodeError:
        js = {}
    diags = []
    for line in err.split("\n"):
        line = line.strip()
        if line.startswith("{") and '"$message_type"' in line:
            try:
                diags.append(json.loads(line))
            except json.JSONDecodeError:
                pass
    return dict(cmd=" ".join(cmd), rc=rc, json=js, diags=diags, stderr=err, wall=wall)


VC_MESSAGES = [
    ("postcondition not satisfied", "ensures"),
    ("precondition not satisfied", "requires"),
    ("invariant not satisfied before loop", "invariant-entry"),
    ("invariant not satisfied at end of loop body", "invariant-preserve"),
    ("loop invariant not satisfied", "invariant"),
    ("decreases not satisfied at end of loop", "decreases"),
    ("decreases not satisfied at continue", "decreases"),
    ("could not prove termination", "decreases"),
    ("assertion failed", "assert"),
    ("possible arithmetic underflow/overflow", "overflow"),
    ("possible division by zero", "overflow"),
    ("possible bit shift underflow/overflow", "overflow"),
    ("unreachable", "requires"),
    ("assert_by_contradiction", "assert"),
    ("failed this postcondition", "ensures"),
    ("cannot show invariant holds", "invariant"),
    ("loop ensures not satisfied", "ensures"),
    ("unable to prove post-condition of closure", "ensures"),
    ("unable to prove pre-condition of closure", "requires"),
]
RLIMIT_MSG = ("Resource limit (rlimit) exceeded", "resource limit", "rlimit")


def root_span(sp):
    """the span in our generated file: follow macro expansion to the outermost call site"""
    cur = sp
    best = sp
    while cur is not None:
        best = cur
        exp = cur.get("expansion")
        cur = exp.get("span") if exp else None
    return best


def fn_of_line(meta, file, line):
    for f in meta["functions"]:
        if f["file"] == file and f["line"] <= line <= f["end_line"]:
            return f["fn"]
    return None


def unit_of_fn(meta, fn):
    for f in meta["functions"]:
        if f["fn"] == fn:
            return f.get("unit") or meta["unit"]
    return meta["unit"]


def classify(meta, res):
    """-> (failures, tool_errors, rlimit_hits, warnings)"""
    gen = os.path.basename(meta["out"])
    gen_text = open(meta["out"], "rb").read()
    failures, tool_errors, rlimits = [], [], []
    for d in res["diags"]:
        lvl = d.get("level")
        msg = d.get("message", "")
        if lvl not in ("error",):
            # Verus reports rlimit as an error; notes/warnings are ignored here
            if lvl == "warning" or lvl == "note":
                continue
        if msg.startswith("aborting due to"):
            continue
        kind = None
        for m, k in VC_MESSAGES:
            if m in msg:
                kind = k
                break
        spans = d.get("spans", [])
        prim = [s for s in spans if s.get("is_primary")] or spans
        if any(m.lower() in msg.lower() for m in RLIMIT_MSG):
            loc = _where(meta, gen, gen_text, prim[0]) if prim else {}
            rlimits.append(dict(message=msg, **loc))
            continue
        if kind is None:
            tool_errors.append(dict(message=msg, rendered=d.get("rendered", "")[:2000]))
            continue
        p = prim[0] if prim else None
        loc = _where(meta, gen, gen_text, p) if p else {}
        ext_clause = None
        if loc.get("o") == "external":
            # a postcondition inherited from a std trait spec (e.g. vstd's Iterator::next laws):
            # locate the function through the other spans, name the clause after the std file
            ext_clause = "std:%s:%s" % (os.path.basename(loc.get("file") or "?"), loc.get("line"))
            for sx in spans:
                if sx is p:
                    continue
                w2 = _where(meta, gen, gen_text, sx)
                if w2.get("o") in ("repo", "spec", "rewrite") and w2.get("fn"):
                    loc = dict(w2, external_clause=ext_clause)
                    break
        # the clause that failed
        clause, owner_fn = None, loc.get("fn")
        callee_clause = None
        if kind in ("ensures", "invariant", "invariant-entry", "invariant-preserve"):
            if loc.get("o") == "spec" and not ext_clause:
                clause = loc["clause"]
                owner_fn = loc["fn"]
            elif ext_clause:
                clause = ext_clause
                owner_fn = loc.get("fn")
            else:
                # `loop invariant not satisfied` at a `continue` / `break`: the primary span is the statement,
                # the invariant that failed is a labelled secondary span
                for sx in spans:
                    if sx is p or "failed this invariant" not in (sx.get("label") or ""):
                        continue
                    w2 = _where(meta, gen, gen_text, sx)
                    if w2.get("o") == "spec" and w2.get("clause"):
                        clause, owner_fn = w2["clause"], w2["fn"]
                        break
        if kind == "requires":
            for s in spans:
                if s.get("label") and "failed precondition" in s["label"]:
                    w = _where(meta, gen, gen_text, s)
                    if w.get("o") == "spec":
                        callee_clause = "%s.%s" % (w["fn"].split("::")[-1].split(" ")[-1], w["clause"])
                    elif w.get("o") == "prelude":
                        callee_clause = "prelude:" + w.get("snippet", "")[:50]
                    else:
                        callee_clause = "std:" + os.path.basename(s.get("file_name", "?"))
            if callee_clause is None:
                # vstd's panic/unreachable/expect/index specs: the secondary span is inside vstd
                callee_clause = "std"
        site = loc.get("snippet", "")
        du = unit_of_fn(meta, owner_fn)
        if kind in ("ensures", "invariant", "invariant-entry", "invariant-preserve") and clause:
            oid = "%s/%s/%s:%s" % (du, owner_fn, kind, clause)
        elif kind == "requires":
            oid = "%s/%s/requires:%s@%s" % (du, owner_fn, callee_clause, site[:60])
        else:
            oid = "%s/%s/%s@%s" % (du, owner_fn, kind, site[:60])
        failures.append(dict(id=oid, def_unit=du, kind=kind, fn=owner_fn, clause=clause, callee_clause=callee_clause,
                             message=msg, where=loc, rendered=d.get("rendered", "")[:4000]))
    return failures, tool_errors, rlimits


def _where(meta, gen, gen_text, sp):
    sp = root_span(sp)
    if os.path.basename(sp.get("file_name", "")) != gen:
        return dict(o="external", file=sp.get("file_name"), line=sp.get("line_start"))
    org = X.locate(meta, sp["byte_start"])
    snippet = gen_text[sp["byte_start"]:sp["byte_end"]].decode("utf-8", "replace")
    snippet = " ".join(snippet.split())
    w = dict(o=org.get("o"), gen_line=sp["line_start"], snippet=snippet)
    if org.get("o") == "repo":
        # line inside the repo file
        delta = gen_text[org["start"]:sp["byte_start"]].count(b"\n")
        w.update(file=org["file"], line=org["line"] + delta)
        w["fn"] = fn_of_line(meta, org["file"], w["line"])
    elif org.get("o") == "spec":
        w.update(fn=org["fn"], clause=org["clause"], kind=org["kind"])
    elif org.get("o") == "prelude":
        delta = gen_text[org["start"]:sp["byte_start"]].count(b"\n")
        w.update(file=org["file"], line=org["line"] + delta, fn="prelude:" + org["file"])
    elif org.get("o") == "rewrite":
        w.update(fn=None, rule=org.get("rule"))
        # find the enclosing function via the nearest repo span before it
        for s in reversed(meta["spans"]):
            if s["start"] <= sp["byte_start"] and s.get("o") == "repo":
                delta = gen_text[s["start"]:sp["byte_start"]].count(b"\n")
                w.update(file=s["file"], line=s["line"] + delta)
                w["fn"] = fn_of_line(meta, s["file"], w["line"])
                break
    return w


def fn_breakdown(res):
    out = {}
    try:
        for m in res["json"]["times-ms"]["smt"]["smt-run-module-times"]:
            for f in m.get("function-breakdown", []):
                k = f["function"]
                e = out.setdefault(k, dict(time_us=0, rlimit=0, success=True))
                e["time_us"] += f.get("time-micros", 0)
                e["rlimit"] += f.get("rlimit", 0)
                e["success"] = e["success"] and f.get("success", False)
    except (KeyError, TypeError):
        pass
    return out


# ----------------------------------------------------------------------------- trust scan
TRUST_TOKENS = ["assume(", "admit(", "external_body", "assume_specification", "axiom",
                "exec_allows_no_decreases_clause", "external_fn_specification", "external_type_specification",
                "#[verifier::external]", "external_trait_specification", "accept_recursive_types",
                "reject_recursive_types", "assume_new"]


def scan_trust(path):
    """every construct in the generated file that is assumed rather than proved, with its line"""
    found = []
    lines = open(path).read().split("\n")
    for i, l in enumerate(lines, 1):
        s = l.strip()
        if s.startswith("//"):
            continue
        code = s.split("//")[0]
        if "/*included:" in code:
            continue        # proved in its own unit's run of the same check, not an assumption
        for t in TRUST_TOKENS:
            if t == "axiom" and "fn axiom" not in code:
                continue    # a *use* of an axiom, not its declaration
            if t in code:
                # describe it by the item that follows
                desc = code
                if len(desc) < 40 and i < len(lines):
                    desc = code + " " + lines[i].strip()
                found.append(dict(token=t.rstrip("("), line=i, text=" ".join(desc.split())[:200]))
                break
    return found


def trust_key(t):
    return "%s :: %s" % (t["token"], t["text"])


# ----------------------------------------------------------------------------- one unit
def run_unit(unit, tag="", substs=None, canary=None, seed=None, rlimit=RLIMIT, isolate=True):
    out = os.path.join(BUILD, tag, unit + ("_canary" if canary else "") + ".rs")
    try:
        meta = X.build_unit(unit_spec(unit), out, substs=substs, canary=canary, isolate=isolate)
    except X.ExtractError as e:
        return dict(unit=unit, status="extract-error", detail=str(e))
    res = run_verus(out, rlimit=rlimit, seed=seed)
    failures, tool_errors, rlimits = classify(meta, res)
    vr = res["json"].get("verification-results", {})
    status = "ok"
    if res["rc"] == 124:
        status = "timeout"
    elif tool_errors or vr.get("encountered-vir-error") or not vr:
        status = "tool-error"
    elif failures:
        status = "failed"      # definite proof failures (possibly next to a resource-limit hit elsewhere)
    elif rlimits:
        status = "rlimit"
    elif not vr.get("success"):
        status = "tool-error"
    return dict(unit=unit, status=status, meta=meta, res=res, failures=failures, tool_errors=tool_errors,
                rlimits=rlimits, verified=vr.get("verified", 0), errors=vr.get("errors", 0),
                breakdown=fn_breakdown(res), trust=scan_trust(out), out=out)


# ----------------------------------------------------------------------------- baseline
def baseline_path():
    return os.path.join(ROOT, "baseline", "obligations.json")


def load_baseline():
    p = baseline_path()
    if not os.path.exists(p):
        return {}
    return json.load(open(p))


def unit_baseline_record(r):
    m = r["meta"]
    return dict(
        clauses=sorted("%s/%s:%s" % (c["fn"], c["kind"], c["clause"]) for c in m["clauses"]),
        functions=sorted(f["fn"] for f in m["functions"]),
        verified=r["verified"],
        failing=sorted(f["id"] for f in r["failures"]),
        trust=sorted(trust_key(t) for t in r["trust"]),
        panic_sites=sorted("%s %s" % (s["fn"], s["site"]) for s in m["panic_sites"]),
    )


# ----------------------------------------------------------------------------- ownership
def owner_of(pid_units, meta, f):
    """which properties a failed obligation belongs to"""
    tagsrc = f.get("clause") or f.get("callee_clause") or ""
    kind = f["kind"]
    if kind in ("invariant-entry", "invariant-preserve"):
        kind = "invariant"
    if kind in ("overflow",):
        kind = "requires"
    if kind == "assert":
        kind = "lemma"
    if kind == "requires" and (f.get("callee_clause") or "").startswith("prelude:"):
        kind = "lemma"      # precondition of a ghost lemma called from a proof hint: part of the semantic argument
    return clause_owners(meta, kind, tagsrc)


# ----------------------------------------------------------------------------- known findings
def load_known():
    p = os.path.join(ROOT, "known_findings.txt")
    known, fixed = [], []
    if os.path.exists(p):
        for l in open(p):
            l = l.strip()
            if not l or l.startswith("#"):
                continue
            if l.startswith("fixed:"):
                fixed.append(l)
                continue
            d = {}
            # property=C07 obligation=<id> input=<free text to end of line>
            m = re.match(r"property=(\S+)\s+obligation=(.*?)\s+input=(.*)$", l)
            if m:
                known.append(dict(property=m.group(1), obligation=m.group(2).strip(), input=m.group(3).strip(), line=l))
    return known, fixed


# ----------------------------------------------------------------------------- main check
def own(meta, x):
    return (x.get("unit") or meta["unit"]) == meta["unit"]


def clause_owners(meta, kind, clause):
    """properties a named obligation counts for"""
    m = re.search(r"\[(C\d+(?:,C\d+)*)\]", clause or "")
    if m:
        return m.group(1).split(",")
    sem = [p for p in meta["serves"] if p != "C04"] or ["C04"]
    if kind in ("requires", "decreases", "panic-site"):
        return ["C04"]
    if kind == "body":
        return list(meta["serves"])
    return sem


def obligation_list(meta, pid=None):
    """named obligations defined by this unit (not by included units), optionally those counting for pid"""
    u = meta["unit"]
    obs = []

    def add(kind, clause, text):
        if pid is None or pid in clause_owners(meta, kind, clause):
            obs.append(text)
    for c in meta["clauses"]:
        if own(meta, c):
            add(c["kind"], c["clause"], "%s/%s/%s:%s" % (u, c["fn"], c["kind"], c["clause"]))
    for f in meta["functions"]:
        if own(meta, f) and f["has_body"]:
            add("body", "", "%s/%s/body(termination+panic-freedom+callee-preconditions)" % (u, f["fn"]))
    for i, sx in enumerate(meta["panic_sites"]):
        if own(meta, sx):
            add("panic-site", "", "%s/%s/panic-site:%s@%s:%d" % (u, sx["fn"], sx["site"], sx["file"], sx["line"]))
    for l in meta["lemmas"]:
        if l["own"]:
            add("lemma", "", "%s/prelude/lemma:%s" % (u, l["name"]))
    return obs


def failed_obligation_keys(meta, f):
    """which entries of obligation_list a Verus failure knocks out"""
    u = f.get("def_unit") or meta["unit"]
    keys = []
    fn = f.get("fn") or ""
    if fn.startswith("prelude:"):
        keys.append("%s/prelude/*" % u)
        return keys
    if f["kind"] in ("ensures", "invariant", "invariant-entry", "invariant-preserve") and f.get("clause"):
        kind = "ensures" if f["kind"] == "ensures" else "invariant"
        keys.append("%s/%s/%s:%s" % (u, fn, kind, f["clause"]))
    keys.append("%s/%s/body(termination+panic-freedom+callee-preconditions)" % (u, fn))
    return keys


# Bounded stand-ins for ASSUMED callees (labelled bounded, never counted as proved): twin family,
# the known-finding obligation id, and the committed list of case numbers known to fail.
BOUNDED = {
    "C04": [dict(family="front", args_quick=["--depth", "1", "--offset", "{seed}"], args_thorough=["--depth", "2", "--offset", "{seed}"],
                 obligation="frontend/bounded-standin/front.extract",
                 known_cases="contracts/known_front_cases.txt",
                 what="the frontend, printer and glue (swc ASTs, trait objects, symbol tables: outside Verus' dialect) through the public entry point beff_core::extract: every program `type X = E; parse.buildParsers<{X: X}>()` for E built from 36 leaf types (basic types, literals, named object/union/tuple/recursive/generic types) with one type constructor out of 45 unary and 17 binary ones (arrays, tuples, objects, mapped and conditional types, keyof, indexed access, Record/Partial/Pick/Omit/Exclude/Extract, template literals, ...) - plus every third of them once more with the named types imported from another module - 35759 programs in the quick tier (3860 of them generated unions of 2 to 4 object types discriminated by overlapping literal sets); a second constructor on top of a thinned subset (which one depends on VERIF_SEED) in the thorough tier - 886172 programs; plus 63 hand-written + 168 generated same-name layouts multi-file / malformed / circular projects. Checked per program, as the property states it: the call returns within 20 s, does not panic or crash the process, returns generated code (emit_code Ok and non-empty) or at least one diagnostic, every diagnostic names a file of the project and a line/column/byte range inside it, and the emitted module defines every named runtype exactly once, refers only to named runtypes it defines and has a buildParsersInput entry for every requested name. NOT checked: that the emitted module loads in Node (no TypeScript compiler for the client runtime offline)"),
            dict(family="refspanic", obligation="conversion/bounded-standin/refs.no_panic",
                 known_cases="contracts/known_refspanic_cases.txt",
                 what="convert_to_sem_type + is_subtype on named, possibly recursive types (not under contract): the 23769 questions of the `refs` family (see C05), a case fails only when the real code PANICS")],
    "C06": [dict(family="proper", obligation="proper_subtype/bounded-standin/proper.sub_vec",
                 known_cases="contracts/known_proper_cases.txt",
                 what="cross-check of what the proof of sub_vec_union / sub_vec_intersect / sub_vec_diff leaves assumed (std's sort, derived Clone / PartialEq, rewrites R15 / R16), on the code as compiled by rustc: reached through the public ProperSubtypeOps on all same-tag pairs of 52 proper subtypes (number lists over {1,2,3}, string lists over {a,b,c}, two typed-array kinds, allowed and excluded, booleans, diagrams), membership compared for every literal value")],
    "C07": [dict(family="front", args_quick=["--depth", "1", "--offset", "{seed}"], args_thorough=["--depth", "2", "--offset", "{seed}"],
                 obligation="frontend/bounded-standin/front.extract",
                 known_cases="contracts/known_front_cases.txt",
                 what="`contains only constructs the code generator can print`, end to end: the generated programs of C04's frontend stand-in (Exclude / Extract / keyof / indexed access / conditional types over 36 leaf types, see evidence/C04.json) must compile to a module: emit_code() neither panics nor fails, and no named runtype is defined twice"),
            dict(family="front", args_quick=["--exclude", "3"], args_thorough=["--exclude", "1"],
                 obligation="frontend/bounded-standin/exclude.printed_type",
                 known_cases="contracts/known_exclude_cases.txt",
                 what="`Exclude<A, B>` at SOURCE level for A, B from 231 types (literals, basic types, tuples, arrays, objects - three of them with an optional property, with and without an explicit `undefined` -, two named recursive types and their pairwise unions; every 3rd of the 53361 pairs in the quick tier): the type handed to code generation for the result is read with an independent evaluator of Runtype on about 170 finite values and must lie between the set difference and A; when every top-level member of A is, on those values, either inside or outside B, it must be exactly the union of the members outside (programs answered with a diagnostic are skipped, except a diagnostic saying that a helper type of the result itself is not defined - `reference not found` - which is a failure)"),
            dict(family="keyof", obligation="access/bounded-standin/keyof.keyof",
                 known_cases="contracts/known_keyof_cases.txt",
                 what="keyof (not under contract): keyof A, keyof (A & B), keyof (A | B) for object atoms whose declared keys are the non-empty subsets of {a, b, c}, 182 questions (147 on object atoms, 35 on unions with a primitive member, which has no keys), against the declared keys / their union / their intersection"),
            dict(family="listidx", obligation="access/bounded-standin/listidx.list_indexed_access",
                 known_cases="contracts/known_listidx_cases.txt",
                 what="list_indexed_access end to end through the public SemTypeContext::indexed_access (the per-atom member type is proved in unit U10, termination and panic-freedom of the walk over the diagram in U9, the walk's RESULT is not under contract): T[i], T[i | j], T[number except i] and T[number except i | j] for tuple types with a prefix up to length 3 over {string, number, boolean} and an optional rest, i, j in 0..=4 (3600 questions), and the same key sets on unions of two such tuple types - two atoms in the diagram - against the union of the two answers (8892 questions), against the item types at the selected indices"),
            dict(family="mapidx", obligation="access/bounded-standin/mapidx.mapping_indexed_access",
                 known_cases="contracts/known_mapidx_cases.txt",
                 what="mapping_indexed_access (object property access, not under contract: it iterates BTreeMaps through iterator adapters) through the public SemTypeContext::indexed_access: object atoms with declared keys among {a: string, b: number} and optionally a string index signature, indexed by every non-empty key set over {a, b, c}, by `string`, and by `string except` each of those sets (180 questions), and the same on unions of two such object types (420 questions), against the union of the types of the selected declared keys and, when an undeclared key is selected, the signature's value type"),
            dict(family="front", args_quick=["--idx"], args_thorough=["--idx"],
                 obligation="frontend/bounded-standin/idx.printed_type",
                 known_cases="contracts/known_idx_cases.txt",
                 what="indexed access `T[K]` at SOURCE level (both the frontend's syntactic shortcut and the semantic route): 115 programs `type X = T[K]` over object types (declared a: string / b: number, with and without a string index signature, Record<string, number>) and tuple / array types (prefix up to 2, optional rest), K a union of literal keys, `string` or `number`, only programs TypeScript accepts; the type handed to code generation for X is read with an independent evaluator of Runtype on a dozen values and must contain exactly the values of the member types TypeScript selects"),
            dict(family="schema2", obligation="to_schema/bounded-standin/schema2.convert_to_schema",
                 known_cases="contracts/known_schema2_cases.txt",
                 what="the ASSUMED recursive entry point convert_to_schema and everything around the functions under contract (semtype_to_runtypes, the memo, to_sem_type reading the result back): every `X op Y` (union, intersection, difference) over 21 small source types (literal sets allowed/excluded over numbers and strings, basic tags, four object atoms, unknown, two differences), 1323 round trips; literal values compared by an independent membership function, object parts by the engine's is_same_type; then the frontend's next step remove_nots_of_intersections_and_empty_of_union is compared with an executable reading of its own comment (empty clauses dropped, Not<> members of the others dropped; emptiness decided by the engine), and its result must contain no Not<> and accept at least the values of the computed type")],
    "C05": [dict(family="front", args_quick=["--cond"], args_thorough=["--cond"],
                 obligation="frontend/bounded-standin/cond.conditional_type",
                 known_cases="contracts/known_cond_cases.txt",
                 what="the property at SOURCE level, through the real frontend (aliases, conditional types, the conversion of named types it builds itself): `type X = V extends B ? 1 : 2` for the literal type V of each of 142 finite values (null, 1, \"a\", lists, linked-list objects) against 56 types over 9 named, possibly recursive definitions; the branch taken is compared with membership of the value in B by recursion on the value (exact in both directions); 7952 questions, those answered with a diagnostic are skipped"),
            dict(family="front", args_quick=["--condlist", "7"], args_thorough=["--condlist", "1"],
                 obligation="frontend/bounded-standin/condlist.conditional_type",
                 known_cases="contracts/known_condlist_cases.txt",
                 what="tuple assignability at SOURCE level: `type X = A extends B | C ? 1 : 2` for tuple types with a prefix up to length 2 over {string, number, string | number} and an optional rest (52 shapes; every 7th of the 140608 triples in the quick tier, all of them in the thorough tier), against brute force over all lists of length <= 4"),
            dict(family="front", args_quick=["--condobj", "5"], args_thorough=["--condobj", "1"],
                 obligation="frontend/bounded-standin/condobj.conditional_type",
                 known_cases="contracts/known_condobj_cases.txt",
                 what="object assignability at SOURCE level: `type X = A extends B | C ? 1 : 2` for object types with the properties a, b each absent / required / optional of string or number and an optional string-keyed index signature (43 TypeScript-valid shapes; every 5th of the 79507 triples in the quick tier, all in the thorough tier), against brute force over the 27 objects with keys a, b, c: exact reading on the left, structural on the right"),
            dict(family="listneg", obligation="list_shape/bounded-standin/listneg.list_is_empty",
                 known_cases="contracts/known_listneg_cases.txt",
                 what="list_is_empty / list_inhabited (assumed decider of C05): `a <: b | c` for tuple shapes with prefix <= 2 over {string, number} and an optional rest in {string, number}, against brute force over all lists of length <= 4 over three basic values"),
            dict(family="listneg2", obligation="list_shape/bounded-standin/listneg2.list_is_empty",
                 known_cases="contracts/known_listneg2_cases.txt",
                 what="the same decider on a larger universe: prefixes up to length 3 over {string, number}, optional rest; `a <: b | c` for all 45^3 triples and `a <: b | c | d` with thinned negatives; item types string | number as well, prefixes up to length 2 (52 shapes, all triples); the negatives converted before the positive; 483235 questions (three negatives in every order over the union-item shapes too), against brute force over all lists of length <= 5"),
            dict(family="idxsig", obligation="mapping_dnf/bounded-standin/idxsig.dnf_mapping_is_empty",
                 known_cases="contracts/known_idxsig_cases.txt",
                 what="the object decider on index signatures with a pattern key domain: `S(v) <: B` for the 19 exact objects over the keys a, xa, 1 with values 1 / \"s\" against {[k: K]: T}, K in {string, `x${string}`}, T in {string, number}, and unions / intersections of two of them (refused intersections skipped); oracle: every property whose key lies in K has a value in T; then the same targets against LEFT types that are index signatures themselves ({[k: K]: T'}, T' also string | number), brute force over the 27 objects with the keys a, xa, 1; then three members on the right and a declared property next to the left signature; then an intersection of a signature and a declared-property object on the left, in both conversion orders; 1028 questions"),
            dict(family="mapneg", obligation="mapping_dnf/bounded-standin/mapneg.dnf_mapping_is_empty",
                 known_cases="contracts/known_mapneg_cases.txt",
                 what="dnf_mapping_is_empty / check_mapping_empty (assumed per-clause steps of the object decider): `A <: B | C` for objects with properties a, b (absent / required / optional, string or number) and an optional index signature over `string` or over the keys \"a\" | \"c\" (TypeScript-valid shapes only), against brute force over the 27 objects with keys a, b, c; exact reading on the left, structural on the right"),
            dict(family="refs", obligation="conversion/bounded-standin/refs.convert_to_sem_type",
                 known_cases="contracts/known_refs_cases.txt",
                 what="convert_to_sem_type and its *_runtype_ref_memo cuts (assumed conversion of named, possibly recursive types) followed by is_subtype: `S(v) <: B` for the singleton type S(v) of each of 611 finite values (null, 1, \"a\", lists up to length 3, linked-list objects, nesting depth 2) against 57 types over 9 named definitions (recursive tuple with itself as rest, mutually recursive tuples, recursive object, named closed/open tuples, ...); the oracle is membership of v in B by recursion on the value, exact in both directions; questions whose conversion is refused (Err) are skipped; a panic of the real code is a failing case"),
            dict(family="refsshared", obligation="conversion/bounded-standin/refsshared.memo",
                 known_cases="contracts/known_refsshared_cases.txt",
                 what="the ASSUMED memo cuts (list_memo / mapping_memo / *_runtype_ref_memo persist in a SemTypeContext): the same 23769 questions as `refs`, asked in sequence against ONE context as in a compiler session, so that an answer memoised under the in-progress assumption of an earlier question would show"),
            dict(family="memo", obligation="conversion/bounded-standin/memo.list_is_empty",
                 known_cases="contracts/known_memo_cases.txt",
                 what="the ASSUMED memo cut, directly: emptiness queries on 5 sets of mutually recursive named tuple types, every sequence of 1..3 queries against one context (95 sequences); one-sided definite oracle: a type reported EMPTY although a finite value (lists over null, nesting <= 4, length <= 2) is a member of it is a wrong answer")],
}


def run_bounded(pid, known, tier="quick", seed=0):
    """-> (violations, known_lines, evidence_rows, notes)"""
    rows, viols, klines, notes = [], [], [], []
    specs = BOUNDED.get(pid, [])
    if not specs:
        return viols, klines, rows, notes
    try:
        import twin
    except ImportError:
        return viols, klines, rows, ["bounded stand-ins not available (twin missing)"]
    err = twin.build()
    if err:
        return viols, klines, rows, ["bounded stand-ins not run: the twin does not build against the current tree: " + err[-300:]]
    for sp in specs:
        fam_args = [sp["family"]] + [a.replace("{seed}", str(seed or 0)) for a in sp.get("args_thorough" if tier == "thorough" else "args_quick", [])]
        rc, out, stderr = twin.run(fam_args)
        if not out:
            notes.append("bounded stand-in %s produced no result (rc %s): %s" % (sp["family"], rc, stderr[-300:]))
        for r in out:
            if r.get("panic"):
                viols.append(dict(id=sp["obligation"] + ":panic", kind="bounded", fn=None, clause=None, unit="twin",
                                  message="the real code panicked during the bounded stand-in", rendered=stderr[-1500:], where={},
                                  found=dict(family=sp["family"], fn="*", panic=True, replay_args=[sp["family"]])))
                continue
            failed = set(r.get("failed_cases", []))
            kn = [k for k in known if k["obligation"] == sp["obligation"] and k["property"] == pid]
            known_cases = set()
            if kn:
                kp = os.path.join(ROOT, sp["known_cases"])
                if os.path.exists(kp):
                    known_cases = {int(x) for x in open(kp).read().split()}
            new = sorted(failed - known_cases)
            still = sorted(failed & known_cases)
            rows.append(dict(bounded=True, family=sp["family"], fn=r.get("fn"), what=sp["what"], cases=r.get("cases"), failing=len(failed),
                             known_failing=len(still), new_failing=len(new), known_no_longer_failing=len(known_cases - failed)))
            if still:
                for k in kn:
                    klines.append((k, dict(id=sp["obligation"]), "%d of %d cases of the bounded stand-in fail (all listed in %s)" % (len(still), r.get("cases"), sp["known_cases"])))
            if new:
                rc2, out2, _ = twin.run(fam_args + ["--case", str(new[0])])
                first = (out2[0].get("first") if out2 else None) or {}
                viols.append(dict(id=sp["obligation"], kind="bounded", fn=r.get("fn"), clause=None, unit="twin",
                                  message="bounded stand-in for an assumed callee: %d case(s) fail that are not known findings (first: case %d)" % (len(new), new[0]),
                                  rendered="input: %s\nobserved: %s\nrequired: %s" % (first.get("input"), first.get("observed"), first.get("required")), where={},
                                  found=dict(family=sp["family"], fn=r.get("fn"), case=new[0], input=first.get("input"), observed=first.get("observed"),
                                             required=first.get("required"), new_failing_cases=new[:50],
                                             replay_args=fam_args + ["--case", str(new[0])])))
    return viols, klines, rows, notes


def bounded_standin(pid, unit):
    """twin search for a unit Verus cannot process; -> pseudo-failure dict with the counterexample, or None"""
    try:
        import twin
    except ImportError:
        return None
    spec = X.parse_spec(unit_spec(unit))
    sem = [p for p in spec.serves if p != "C04"]
    fam = twin.FAMILY.get(unit)
    if fam is None:
        return None
    if twin.build():
        return None
    rc, rows, stderr = twin.run([fam])
    for r in rows:
        if r.get("panic"):
            if pid != "C04":
                continue
            return dict(id="%s/bounded-standin/%s:panic" % (unit, fam), kind="bounded", fn=None, clause=None, unit=unit,
                        message="the real code panicked while the twin enumerated its small universe (bounded stand-in; Verus could not process the unit)",
                        rendered=stderr[-1500:], where={}, found=dict(family=fam, fn="*", panic=True, replay_args=[fam]))
        if r.get("failures") and pid in sem:
            first = r["first"]
            return dict(id="%s/bounded-standin/%s.%s" % (unit, r["family"], r["fn"]), kind="bounded", fn=r["fn"], clause=None, unit=unit,
                        message="bounded stand-in (twin, small universe; Verus could not process the unit on this tree): the real code violates the contract's reading on a concrete input",
                        rendered="input: %s\nobserved: %s\nrequired: %s" % (first["input"], first["observed"], first["required"]), where={},
                        found=dict(family=r["family"], fn=r["fn"], case=first["case"], input=first["input"], observed=first["observed"],
                                   required=first["required"], replay_args=[r["family"], "--fn", r["fn"], "--case", str(first["case"])]))
    return None


def check(pid, tier, seed, rebaseline=False):
    # one build directory per property: `./check C05` and `./check C06` may run side by side (both extract unit `dnf`)
    global BUILD
    BUILD = os.path.join(ROOT, "build", pid)
    t0 = time.time()
    units = available_units(pid)
    if not units:
        print("no units built for %s" % pid)
        return 2
    base = load_baseline()
    results = {}
    canary_futs = []
    pool = concurrent.futures.ThreadPoolExecutor(max_workers=12)
    futs = {u: pool.submit(run_unit, u) for u in units}
    # canaries (vacuity guard) run concurrently with the main runs
    for u in units:
        try:
            for cn in X.parse_spec(unit_spec(u)).canaries:
                canary_futs.append((u, cn, pool.submit(run_unit, u, "canary/" + hashlib.md5(cn.encode()).hexdigest()[:6], None, cn)))
        except X.ExtractError:
            pass
    for u, fu in futs.items():
        results[u] = fu.result()
    undecided, violations, notes = [], [], []
    known, _fixed = load_known()
    known_hit = []
    all_obs, failed_keys = [], set()
    samples, fn_rows, trusted = [], [], []
    rewrites = {}
    seen_fail_ids = set()
    for u in units:
        r = results[u]
        if r["status"] in ("extract-error", "tool-error", "timeout"):
            if r["status"] == "extract-error":
                why = "%s: extraction failed: %s" % (u, r["detail"])
            else:
                te = r.get("tool_errors") or [dict(message=r["res"]["stderr"][-1500:])]
                why = "%s: verus could not process the extracted code: %s" % (u, te[0]["message"][:300])
            # The unit is out of the verifier's reach on this tree. Bounded stand-in (labelled as such):
            # the executable twin enumerates its small universe against the real code; only a concrete
            # failing input turns this into a violation, otherwise the unit stays undecided.
            bs = bounded_standin(pid, u)
            if bs is not None:
                violations.append(bs)
                notes.append(why + " -> bounded stand-in (twin) used instead")
            else:
                undecided.append(why + " (bounded stand-in found no failing input in its small universe)")
            continue
        meta = r["meta"]
        for k, v in meta["rewrites"].items():
            rewrites[k] = max(rewrites.get(k, 0), v)
        rec = unit_baseline_record(r)
        if rebaseline:
            base[u] = rec
        b = base.get(u)
        if b is None:
            undecided.append("%s: no baseline recorded (run --rebaseline on the unchanged tree)" % u)
            continue
        # vacuity guard 1: the contract set is the baseline's
        if set(rec["clauses"]) != set(b["clauses"]):
            miss = set(b["clauses"]) - set(rec["clauses"])
            extra = set(rec["clauses"]) - set(b["clauses"])
            undecided.append("%s: contract clauses differ from baseline (missing %s, new %s)" % (u, sorted(miss)[:3], sorted(extra)[:3]))
            continue
        # vacuity guard 2: trusted base is the allow-listed one
        newtrust = set(rec["trust"]) - set(b["trust"])
        if newtrust:
            undecided.append("%s: new unchecked assumption in generated file: %s" % (u, sorted(newtrust)[:2]))
            continue
        trusted += rec["trust"]
        fails = list(r["failures"])
        if r["status"] == "rlimit" or fails:
            # second opinion: 4x resources, another z3 seed
            # (isolate: one z3 process per function - a failed query can make the next ones in the
            #  same solver session fail spuriously, observed with bdd_to_dnf_recursive after a broken diff)
            r2 = run_unit(u, tag="retry", seed=(seed or 0) + 1, rlimit=RLIMIT_RETRY, isolate=True)
            if r2["status"] == "ok":
                notes.append("%s: first attempt %s, verified on retry with rlimit %d" % (u, r["status"], RLIMIT_RETRY))
                r, fails = r2, []
            elif r2["status"] == "failed":
                r, fails = r2, list(r2["failures"])
            elif r2["status"] == "rlimit":
                undecided.append("%s: solver resource limit even at rlimit %d: %s" % (u, RLIMIT_RETRY, [x["message"] for x in r2["rlimits"][:1]]))
                continue
            else:
                undecided.append("%s: retry ended in %s" % (u, r2["status"]))
                continue
            results[u] = r
        obs = obligation_list(meta, pid)
        all_obs += obs
        for f in fails:
            f["unit"] = u
            for k in failed_obligation_keys(meta, f):
                failed_keys.add(k)
            if f["id"] in seen_fail_ids:
                continue
            seen_fail_ids.add(f["id"])
            owners = owner_of(units, meta, f)
            kf = [k for k in known if k["obligation"] == f["id"]]
            if kf:
                for k in kf:
                    if k["property"] == pid:
                        known_hit.append((k, f))
                continue
            if f["id"] in b.get("failing", []):
                # fails on the baseline tree too and is not a listed finding: the check itself is broken
                undecided.append("%s: obligation %s fails on the baseline too and is not a known finding" % (u, f["id"]))
                continue
            if pid in owners:
                violations.append(f)
            else:
                notes.append("obligation %s (owned by %s) fails; it is reported by that property's check, not by %s" % (f["id"], ",".join(owners), pid))
        for fnname, e in sorted(r["breakdown"].items()):
            fn_rows.append(dict(unit=u, function=fnname, z3_us=e["time_us"], rlimit=e["rlimit"], ok=e["success"]))
        for c in meta["clauses"]:
            if own(meta, c) and pid in clause_owners(meta, c["kind"], c["clause"]):
                samples.append("%s/%s/%s:%s  ::  %s" % (u, c["fn"], c["kind"], c["clause"], " ".join(c["text"].split())[:200]))
    if rebaseline:
        os.makedirs(os.path.dirname(baseline_path()), exist_ok=True)
        json.dump(base, open(baseline_path(), "w"), indent=1, sort_keys=True)
        print("baseline written for", units)
    obligations = len(all_obs)
    undis = [o for o in all_obs if o in failed_keys or any(k.endswith("/*") and o.startswith(k[:-1]) for k in failed_keys)]
    discharged = obligations - len(undis)
    # canaries (vacuity): a contradictory precondition/assumption would make `ensures false` provable
    canary_rows = []
    for u, cn, fu in canary_futs:
        rc_ = fu.result()
        hit = [f for f in rc_.get("failures", []) if f.get("clause") == "CANARY"]
        canary_rows.append(dict(unit=u, fn=cn, rejected=bool(hit)))
        if not hit and not undecided:
            undecided.append("%s: canary `ensures false` on %s was NOT rejected (status %s): contracts are vacuous" % (u, cn, rc_["status"]))
    pool.shutdown()
    bounded_rows = []
    if pid in BOUNDED and not rebaseline:
        bv, bk, bounded_rows, bn = run_bounded(pid, known, tier, seed)
        violations += bv
        notes += bn
        for k, f, txt in bk:
            known_hit.append((k, f))
    if obligations == 0:
        undecided.append("zero obligations generated")
    ev_extra = {}
    if tier == "thorough" and not undecided and not violations:
        import thorough
        extra_und, extra_notes, ev_extra = thorough.run(pid, units, results, seed)
        undecided += extra_und
        notes += extra_notes
    wall = time.time() - t0
    # ------------------------------------------------------------------ report
    for n in notes:
        print("NOTE:", n)
    for k, f in known_hit:
        print("KNOWN-FINDING: property=%s %s -- %s" % (pid, k["obligation"], k["input"]))
    rc = 0
    if violations:
        import replay as RP
        for f in violations:
            if f.get("kind") == "bounded":
                path, found = RP.make_bounded_replay(pid, f), True
            else:
                path, found = RP.make_replay(pid, f, results[f["unit"]])
            print("VIOLATION property=%s replay=%s%s" % (pid, path, "" if found else " no-failing-input-found"))
            print("  obligation: %s" % f["id"])
            print("  %s" % f["message"])
        rc = 1
    elif undecided:
        for x in undecided:
            print("UNDECIDED:", x)
        rc = 2
    if bounded_rows:
        ev_extra = dict(ev_extra or {}, bounded_standins_for_assumed_callees=bounded_rows)
    write_evidence(pid, tier, seed, wall, obligations, discharged, results, units, trusted, samples, fn_rows,
                   rewrites, canary_rows, violations, known_hit, undecided, notes, ev_extra, undis)
    print("%s: %s  (%d obligations, %d discharged, %d units, %.1fs)" %
          (pid, {0: "HOLDS on everything under contract", 1: "VIOLATED", 2: "UNDECIDED"}[rc], obligations, discharged, len(units), wall))
    return rc


ASSUMPTIONS = {}


def load_assumptions(pid):
    p = os.path.join(ROOT, "contracts", "assumptions.json")
    if os.path.exists(p):
        d = json.load(open(p))
        return d.get("all", []) + d.get(pid, [])
    return []


def write_evidence(pid, tier, seed, wall, obligations, discharged, results, units, trusted, samples, fn_rows,
                   rewrites, canary_rows, violations, known_hit, undecided, notes, extra, undis=()):
    fns = []
    sites = []
    for u in units:
        r = results[u]
        if "meta" not in r:
            continue
        for f in r["meta"]["functions"]:
            if not own(r["meta"], f):
                continue
            fns.append("%s %s:%d %s%s" % (u, f["file"], f["line"], f["fn"], "" if f["contract"] else " (no contract: panic-freedom/termination only)"))
        for s in r["meta"]["panic_sites"]:
            if not own(r["meta"], s):
                continue
            sites.append("%s:%d %s in %s" % (s["file"], s["line"], s["site"], s["fn"]))
    cov = dict(
        obligations=obligations,
        discharged=discharged,
        checker_cmd="verus --edition 2024 build/<property>/<unit>.rs --output-json --time-expanded --multiple-errors 20 --error-format=json --rlimit %d   (Verus 0.2026.09.13, z3 back end; one run per unit: %s)" % (RLIMIT, ", ".join(units)),
        trusted_base=sorted(set(trusted)),
        backend="Verus 0.2026.09.13 / z3 (bundled)",
        units=units,
        functions_under_contract=fns,
        panic_sites_proved_unreachable_or_safe=sites if pid == "C04" else len(sites),
        per_function_solver=fn_rows,
        solver_time_s=round(sum(x["z3_us"] for x in fn_rows) / 1e6, 3),
        rewrites_applied=rewrites,
        extraction_drops="error message payloads (R2), #[cfg(test)] modules and commented-out code (R4), every item not listed under `take` in contracts/*.vspec (then either unreferenced or contract-only, listed in trusted_base)",
        canaries=canary_rows,
        samples=samples[:60],
        known_findings=[k["line"] for k, _ in known_hit],
        undecided=undecided,
        undischarged=list(undis),
        notes=notes,
        obligation_count_rule="named obligations, each counted once in the unit that defines it: contract clauses spliced into the real code (requires/ensures/invariant/decreases), one body obligation per extracted function (termination, panic-freedom, callee preconditions, overflow), each panic site (unreachable!/expect/unwrap/index) inside extracted bodies, each prelude lemma; discharged = those not hit by a Verus error on this run",
    )
    cov.update(extra or {})
    ev = dict(property_id=pid, tier=tier, seed=seed or 0, level="proof", coverage=cov,
              assumptions=load_assumptions(pid), wall_s=round(wall, 2),
              violations=len(violations))
    os.makedirs(os.path.join(ROOT, "evidence"), exist_ok=True)
    json.dump(ev, open(os.path.join(ROOT, "evidence", pid + ".json"), "w"), indent=1)


def main():
    ap = argparse.ArgumentParser()
    ap.add_argument("pid")
    ap.add_argument("--tier", default=os.environ.get("VERIF_TIER", "quick"))
    ap.add_argument("--replay")
    ap.add_argument("--rebaseline", action="store_true")
    a = ap.parse_args()
    seed = int(os.environ.get("VERIF_SEED", "0") or 0)
    if a.replay:
        import replay as RP
        sys.exit(RP.run_replay(a.pid, a.replay))
    if a.pid not in PROPERTY_UNITS:
        print("property %s is not claimed (see MANIFEST.json not_applicable)" % a.pid)
        sys.exit(2)
    sys.exit(check(a.pid, a.tier, seed, a.rebaseline))


if __name__ == "__main__":
    main()
