#!/bin/bash
# developer tool: apply every kept seed to /repo in turn, run the quick check of its property, undo; print a table.
# (edits /repo's working tree: never run while a `vp run` job is active)
# usage: tools/seed_regress.sh [PROPERTY ...]     (default: all)
cd /verif
git -C /repo status --short | grep -q . && { echo "/repo not clean"; exit 9; }
for d in seeded/*/; do
  id=$(basename $d); p=${id%%-*}
  if [ $# -gt 0 ]; then case " $* " in *" $p "*) ;; *) continue;; esac; fi
  git -C /repo apply /verif/$d/patch.diff 2>/dev/null || { echo "$id: patch does not apply"; continue; }
  out=$(./check $p 2>&1); rc=$?
  ob=$(echo "$out" | grep -E "^  obligation" | head -2 | tr '\n' ' ')
  un=$(echo "$out" | grep -E "^UNDECIDED" | head -1 | cut -c1-150)
  echo "$id rc=$rc $ob $un"
  git -C /repo checkout -- .
done
git -C /repo status --short | head -3
# the evidence files now describe runs on modified trees: put back the committed ones (runs on the unchanged tree)
git -C /verif checkout -- evidence
