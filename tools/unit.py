#!/usr/bin/env python3
"""developer helper: build and verify one unit, print failures (not used by registered checks)"""
import sys, os
sys.path.insert(0, os.path.dirname(os.path.abspath(__file__)))
import vcheck as V
for u in sys.argv[1:]:
    r = V.run_unit(u)
    print(u, r['status'], r.get('detail', ''), 'verified', r.get('verified'), 'errors', r.get('errors'))
    for f in r.get('failures', []):
        print('  FAIL', {k: (str(v)[:160]) for k, v in f.items() if k in ('obligation', 'id', 'msg', 'message', 'site', 'line')})
    for f in r.get('rlimits', []):
        print('  RLIMIT', str(f)[:200])
    for f in r.get('tool_errors', []):
        print('  TOOL', str(f)[:400])
