"""Thorough tier: everything the quick tier does, plus
  1. stability: every unit re-verified with another z3 seed and 4x rlimit;
  2. lemma canaries: every prelude proof fn with `assert(false)` appended must be REJECTED
     (a contradictory `requires` would make it pass);
  3. broken variants: a fixed list of deliberately wrong versions of the real code (applied to the
     text read from /repo, never written there) must each fail at the expected named obligation;
  4. the executable twin's exhaustive small-universe sanity run (spec reading vs. real code);
Any surprise here means the CHECK is broken (exit 2), never a violation of the property.
"""
from __future__ import annotations
import concurrent.futures, json, os, sys, time, hashlib
ROOT = os.path.dirname(os.path.dirname(os.path.abspath(__file__)))
sys.path.insert(0, os.path.join(ROOT, "tools"))
import extract as X
import vcheck as V
from rustlex import tokenize, match_close

ITEM_START = {"pub", "proof", "spec", "open", "closed", "broadcast", "fn", "impl", "#", "uninterp", "trait",
              "struct", "enum", "type", "const", "use", "}", "ghost", "tracked"}


def lemma_bodies(text):
    """[(name, offset of the closing brace of the body)] for every non-bit_vector proof fn"""
    toks = tokenize(text)
    sg = [k for k, t in enumerate(toks) if t.kind not in ("ws", "comment")]
    out = []
    for a in range(len(sg) - 2):
        if toks[sg[a]].text == "proof" and toks[sg[a + 1]].text == "fn":
            name = toks[sg[a + 2]].text
            # axioms (`#[verifier::external_body] proof fn`) have no checked body: they are assumptions,
            # listed by the trust scan, and cannot be canaried
            back = [toks[sg[b]].text for b in range(max(0, a - 12), a)]
            if "external_body" in back and "fn" not in back[back.index("external_body"):]:
                continue
            # params
            b = a + 3
            while toks[sg[b]].text != "(":
                b += 1
            k = match_close(toks, sg[b]) + 1
            bitvec = False
            body_close = None
            while k < len(toks):
                t = toks[k]
                if t.kind == "ident" and t.text == "by":
                    bitvec = True   # `by (bit_vector)` / `by (nonlinear_arith)` proof fns have no ordinary body
                if t.kind == "open":
                    c = match_close(toks, k)
                    if t.text == "{":
                        n = c + 1
                        while n < len(toks) and toks[n].kind in ("ws", "comment"):
                            n += 1
                        if n >= len(toks) or toks[n].text in ITEM_START:
                            body_close = c
                            break
                    k = c + 1
                    continue
                k += 1
            if body_close is not None and not bitvec:
                out.append((name, toks[body_close].start))
    return out


def run_lemma_canary(unit, prelude_rel, name, off):
    """build the unit with `assert(false)` appended to one lemma; it must fail inside that lemma"""
    tag = "lcanary/%s_%s" % (unit, name)
    out = os.path.join(V.BUILD, tag, unit + ".rs")
    # patch the prelude text on the fly through a temporary copy
    src = os.path.join(ROOT, prelude_rel)
    text = open(src).read()
    patched = text[:off] + "\n    assert(false); // LEMMA-CANARY\n" + text[off:]
    tmpdir = os.path.join(V.BUILD, tag)
    os.makedirs(tmpdir, exist_ok=True)
    tmp_prelude = os.path.join(tmpdir, "prelude_patched.rs")
    open(tmp_prelude, "w").write(patched)
    try:
        meta = X.build_unit(V.unit_spec(unit), out, prelude_override={prelude_rel: tmp_prelude})
    except X.ExtractError as e:
        return dict(lemma=name, rejected=False, detail="extract: %s" % e)
    res = V.run_verus(out, rlimit=V.RLIMIT)
    rejected = any("assertion failed" in d.get("message", "") and "LEMMA-CANARY" in json.dumps(d.get("spans", []))
                   for d in res["diags"])
    return dict(lemma=name, rejected=rejected, detail="" if rejected else "status rc=%s" % res["rc"])


def load_mutants():
    p = os.path.join(ROOT, "contracts", "mutants.json")
    if not os.path.exists(p):
        return []
    return json.load(open(p))


def run(pid, units, results, seed):
    und, notes, ev = [], [], {}
    t0 = time.time()
    # 1. stability
    stab = []
    with concurrent.futures.ThreadPoolExecutor(max_workers=4) as ex:
        futs = {u: ex.submit(V.run_unit, u, "stability", None, None, (seed or 0) + 7919, V.RLIMIT_RETRY) for u in units}
        for u, fu in futs.items():
            r = fu.result()
            stab.append(dict(unit=u, status=r["status"], seed=(seed or 0) + 7919, rlimit=V.RLIMIT_RETRY))
            if r["status"] != "ok":
                und.append("stability run of %s (seed %d, rlimit %d) ended in %s" % (u, (seed or 0) + 7919, V.RLIMIT_RETRY, r["status"]))
    ev["stability_runs"] = stab
    # 2. lemma canaries
    jobs = []
    for u in units:
        meta = results[u]["meta"]
        own_pre = sorted({l["file"] for l in meta["lemmas"] if l["own"]})
        for pre in own_pre:
            for name, off in lemma_bodies(open(os.path.join(ROOT, pre)).read()):
                jobs.append((u, pre, name, off))
    rows = []
    with concurrent.futures.ThreadPoolExecutor(max_workers=12) as ex:
        futs = [(u, name, ex.submit(run_lemma_canary, u, pre, name, off)) for u, pre, name, off in jobs]
        for u, name, fu in futs:
            r = fu.result()
            rows.append(dict(unit=u, **r))
            if not r["rejected"]:
                und.append("lemma canary: `assert(false)` at the end of %s (%s) was NOT rejected: %s" % (name, u, r["detail"]))
    ev["lemma_canaries"] = dict(total=len(rows), rejected=sum(1 for r in rows if r["rejected"]))
    # 3. broken variants (each is also run in every unit that *includes* the mutated unit, to catch
    #    brittle proofs: under modular verification only the mutated function itself may fail)
    muts = load_mutants()
    mrows = []
    jobs = []
    for m in muts:
        for u in units:
            inc = results[u]["meta"].get("includes", [])
            if u == m["unit"] or m["unit"] in inc or any(m["unit"] in X.parse_spec(V.unit_spec(i)).includes for i in inc):
                jobs.append((m, u))
    with concurrent.futures.ThreadPoolExecutor(max_workers=10) as ex:
        futs = []
        for m, u in jobs:
            subst = {m["file"]: [(m["old"], m["new"])]}
            futs.append((m, u, ex.submit(V.run_unit, u, "mut/%s/%s" % (m["name"], u), subst)))
        for m, u, fu in futs:
            r = fu.result()
            ids = [f["id"] for f in r.get("failures", [])]
            hit = [i for i in ids if m["expect"] in i]
            if not hit and r["status"] == "rlimit":
                # no proof within the resource limit is also "not verified": accepted for a broken variant when
                # the limit was hit in the mutated function (in a real run this would be UNDECIDED, exit 2)
                fn_expected = m["expect"].split("/")[1] if "/" in m["expect"] else ""
                if any((x.get("fn") or "") == fn_expected or not fn_expected for x in r.get("rlimits", [])):
                    hit = ["rlimit in " + fn_expected]
            mutated_fn = "/".join(m["expect"].split("/")[:2])
            collateral = [i for i in ids if not i.startswith(mutated_fn + "/") and not i.startswith(mutated_fn)]
            mrows.append(dict(name=m["name"], run_in_unit=u, status=r["status"], expected=m["expect"], caught=bool(hit),
                              failed=ids[:6], collateral=collateral[:4]))
            if r["status"] == "extract-error":
                und.append("broken variant %s: anchor lost (%s)" % (m["name"], r.get("detail")))
            elif r["status"] in ("tool-error", "timeout"):
                und.append("broken variant %s in %s: %s" % (m["name"], u, r["status"]))
            elif u == m["unit"] and not hit:
                und.append("broken variant %s was NOT rejected at %s (status %s, failed: %s)" % (m["name"], m["expect"], r["status"], ids[:3]))
            if collateral:
                und.append("brittle proof: broken variant %s (in %s) also makes unrelated obligations fail in unit %s: %s" % (m["name"], mutated_fn, u, collateral[:3]))
    ev["broken_variants"] = mrows
    # 3b. equivalent variants: meaning-preserving rewrites of the real code (contracts/equivalents.json, applied to
    #     the text read from /repo, never written) must still verify - a failure here is a brittle proof, i.e. a
    #     false alarm waiting to happen
    erows = []
    ep = os.path.join(ROOT, "contracts", "equivalents.json")
    eqs = json.load(open(ep)) if os.path.exists(ep) else []
    ejobs = [(e, u) for e in eqs for u in units
             if u == e["unit"] or e["unit"] in results[u]["meta"].get("includes", [])]
    with concurrent.futures.ThreadPoolExecutor(max_workers=10) as ex:
        futs = []
        for e, u in ejobs:
            subst = {e["file"]: [(x["old"], x["new"]) for x in e["subs"]]}
            futs.append((e, u, ex.submit(V.run_unit, u, "eqv/%s/%s" % (e["name"], u), subst)))
        for e, u, fu in futs:
            r = fu.result()
            ids = [f["id"] for f in r.get("failures", [])]
            erows.append(dict(name=e["name"], run_in_unit=u, status=r["status"], failed=ids[:4]))
            if r["status"] == "extract-error":
                und.append("equivalent variant %s: anchor lost (%s)" % (e["name"], r.get("detail")))
            elif r["status"] != "ok":
                und.append("brittle proof: equivalent variant %s no longer verifies in unit %s (%s): %s" % (e["name"], u, r["status"], ids[:3]))
    ev["equivalent_variants"] = erows
    # 4. twin sanity
    try:
        import twin
        tr = twin.sanity(pid, seed)
        ev["twin_sanity"] = tr
        if tr.get("disagreements"):
            und.append("twin sanity: the executable reading of a contract disagrees with the real code while Verus verifies: %s" % tr["disagreements"][:2])
        if tr.get("error"):
            notes.append("twin sanity run not available: %s" % tr["error"])
    except ImportError:
        notes.append("twin not built")
    ev["thorough_wall_s"] = round(time.time() - t0, 1)
    return und, notes, ev
