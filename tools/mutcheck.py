#!/usr/bin/env python3
"""developer helper: run the broken / equivalent variants whose name starts with a prefix, in their own unit
usage: mutcheck.py <name-prefix> ..."""
import sys, os, json, concurrent.futures
sys.path.insert(0, os.path.dirname(os.path.abspath(__file__)))
import vcheck as V
ROOT = os.path.dirname(os.path.dirname(os.path.abspath(__file__)))
muts = json.load(open(os.path.join(ROOT, "contracts", "mutants.json")))
eqs = json.load(open(os.path.join(ROOT, "contracts", "equivalents.json")))
pre = sys.argv[1:]
sel = lambda n: any(n.startswith(p) for p in pre)
with concurrent.futures.ThreadPoolExecutor(max_workers=8) as ex:
    jobs = []
    for m in muts:
        if sel(m["name"]):
            jobs.append(("mut", m, ex.submit(V.run_unit, m["unit"], "mut/%s/%s" % (m["name"], m["unit"]), {m["file"]: [(m["old"], m["new"])]})))
    for e in eqs:
        if sel(e["name"]):
            jobs.append(("eqv", e, ex.submit(V.run_unit, e["unit"], "eqv/%s/%s" % (e["name"], e["unit"]), {e["file"]: [(x["old"], x["new"]) for x in e["subs"]]})))
    for kind, m, fu in jobs:
        r = fu.result()
        ids = [f["id"] for f in r.get("failures", [])]
        if kind == "mut":
            hit = [i for i in ids if m["expect"] in i]
            fnq = "/".join(m["expect"].split("/")[:2])
            coll = [i for i in ids if not i.startswith(fnq)]
            print("MUT", m["name"], r["status"], "CAUGHT" if hit else "MISSED", ids[:4], "COLLATERAL %s" % coll if coll else "", r.get("detail", "") if r["status"] not in ("ok", "failed") else "")
        else:
            print("EQV", m["name"], r["status"], ids[:4], r.get("detail", "") if r["status"] != "ok" else "")
