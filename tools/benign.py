#!/usr/bin/env python3
"""developer tool (not a registered check): apply meaning-preserving refactorings to /repo, one at a time, run the
quick checks of the properties concerned and restore the file. Expected: exit 0 everywhere; exit 2 (UNDECIDED) is
tolerated and noted; exit 1 (VIOLATION) on any of these is a false alarm that must be corrected in the contracts.
Do not run while a `vp run` job is active: it edits /repo's working tree."""
import subprocess,sys
REL={'bdd':'packages/beff-core/src/subtyping/bdd.rs','sem':'packages/beff-core/src/subtyping/semtype.rs','sub':'packages/beff-core/src/subtyping/subtype.rs','ts':'packages/beff-core/src/subtyping/to_schema.rs','dnf':'packages/beff-core/src/subtyping/dnf.rs'}
cases=[
 ("rename-locals-union", 'bdd', [("let b1 = self;\n        if **b1 == **b2 {\n            return self.clone();\n        }","let lhs = self;\n        let b1 = lhs;\n        if **b1 == **b2 {\n            return self.clone();\n        }")], ['C06']),
 ("swap-independent-arms-union", 'bdd', [("            (Bdd::True, _) => Bdd::True.into(),\n            (Bdd::False, _) => b2.clone(),\n            (_, Bdd::True) => Bdd::True.into(),","            (Bdd::False, _) => b2.clone(),\n            (Bdd::True, _) => Bdd::True.into(),\n            (_, Bdd::True) => Bdd::True.into(),")], ['C06']),
 ("union-drop-redundant-mask", 'sem', [("        let some = (t1.some_as_bitset() | t2.some_as_bitset()) & !all;\n\n        let some = some & !all;\n","        let some = (t1.some_as_bitset() | t2.some_as_bitset()) & !all;\n")], ['C06']),
 ("complement-via-early-let", 'bdd', [("            Bdd::True => Bdd::False.into(),\n            Bdd::False => Bdd::True.into(),\n            Bdd::Node {\n                atom,\n                left,\n                middle,\n                right,\n            } => {\n                if **right == Bdd::False {","            Bdd::False => Bdd::True.into(),\n            Bdd::True => Bdd::False.into(),\n            Bdd::Node {\n                atom,\n                left,\n                middle,\n                right,\n            } => {\n                if **right == Bdd::False {")], ['C06']),
 ("comments-and-whitespace", 'sub', [("    fn complement(&self) -> Rc<ProperSubtype> {\n        match &**self {","    fn complement(&self) -> Rc<ProperSubtype> {\n        // complement within the tag: flip the polarity of literal sets, complement diagrams\n\n        match &**self {")], ['C06']),
 ("diff-boolean-arm-rewritten", 'sub', [("                if b1 == b2 {\n                    return Ok(SubType::False(SubTypeTag::Boolean).into());\n                }\n                Ok(SubType::Proper(self.clone()).into())","                if b1 != b2 {\n                    return Ok(SubType::Proper(self.clone()).into());\n                }\n                Ok(SubType::False(SubTypeTag::Boolean).into())")], ['C06']),
 ("no-cache-reorder-tag-arms", 'ts', [("                    SubTypeTag::Null => {\n                        acc.insert(Runtype::null());\n                    }\n                    SubTypeTag::Boolean => {\n                        acc.insert(Runtype::boolean());\n                    }","                    SubTypeTag::Boolean => {\n                        acc.insert(Runtype::boolean());\n                    }\n                    SubTypeTag::Null => {\n                        acc.insert(Runtype::null());\n                    }")], ['C07']),
 ("dnf-reorder-left-right", 'dnf', [("            // 2. Left (Conjunction): 'atom' is TRUE\n            pos.push(*atom); // Cheap copy\n            bdd_to_dnf_recursive(left, pos, neg, acc);\n            pos.pop(); // Backtrack\n\n            // 3. Right (Difference): 'atom' is FALSE\n            neg.push(*atom); // Cheap copy\n            bdd_to_dnf_recursive(right, pos, neg, acc);\n            neg.pop(); // Backtrack","            // 3. Right (Difference): 'atom' is FALSE\n            neg.push(*atom); // Cheap copy\n            bdd_to_dnf_recursive(right, pos, neg, acc);\n            neg.pop(); // Backtrack\n\n            // 2. Left (Conjunction): 'atom' is TRUE\n            pos.push(*atom); // Cheap copy\n            bdd_to_dnf_recursive(left, pos, neg, acc);\n            pos.pop(); // Backtrack")], ['C06','C07']),
 ("union-commute-all", 'sem', [("        let mut all = t1.all | t2.all;\n        let some = (t1.some_as_bitset() | t2.some_as_bitset()) & !all;","        let mut all = t2.all | t1.all;\n        let some = (t2.some_as_bitset() | t1.some_as_bitset()) & !all;")], ['C06']),
 ("diff-mask-spelled-out", 'sem', [("        some &= !all;\n","        some = some & !all;\n")], ['C06']),
 ("intersect-some-demorgan", 'sem', [("        let some = (t1.some_as_bitset() | t1.all) & (t2.some_as_bitset() | t2.all);","        let some = (t2.all | t2.some_as_bitset()) & (t1.all | t1.some_as_bitset());")], ['C06']),
]
only=sys.argv[1:] 
for name,f,subs,props in cases:
    if only and name not in only: continue
    p='/repo/'+REL[f]
    orig=open(p).read()
    s=orig
    ok=True
    for o,n in subs:
        if s.count(o)!=1: print(name,'ANCHOR',s.count(o)); ok=False; break
        s=s.replace(o,n)
    if not ok: continue
    open(p,'w').write(s)
    try:
        b=subprocess.run('cd /repo && cargo build -p beff-core --offline 2>&1 | grep -c "^error"',shell=True,capture_output=True,text=True).stdout.strip()
        res=[]
        for pr in props:
            r=subprocess.run(['./check',pr],cwd='/verif',capture_output=True,text=True)
            last=[l for l in r.stdout.split('\n') if l.startswith(('VIOLATION','UNDECIDED','  obligation')) ][:4]
            res.append((pr,r.returncode,last))
        print(name,'build_errors=',b,res)
    finally:
        open(p,'w').write(orig)
