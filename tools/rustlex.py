"""Token-level Rust reader used by the extractor.

Not a parser: it recognises comments, string/char/lifetime tokens, identifiers, numbers,
punctuation and bracket nesting, which is exactly what is needed to (a) find items by kind and
name, (b) find a function's body brace, return type and loops, (c) rewrite single tokens.
No regular expression is ever applied to raw source text outside of a single token.
"""
from __future__ import annotations
from dataclasses import dataclass, field
from typing import List, Optional, Tuple


class LexError(Exception):
    pass


@dataclass
class Tok:
    kind: str   # ws comment ident lifetime char str num punct open close
    text: str
    start: int  # byte offsets in the source string (python str index)
    end: int
    line: int   # 1-based line of token start


OPEN = {"(": ")", "[": "]", "{": "}"}
CLOSE = {")", "]", "}"}


def tokenize(src: str) -> List[Tok]:
    toks: List[Tok] = []
    i, n, line = 0, len(src), 1

    def emit(kind, s, e):
        nonlocal line
        toks.append(Tok(kind, src[s:e], s, e, line))
        line += src.count("\n", s, e)

    while i < n:
        c = src[i]
        if c in " \t\r\n":
            j = i
            while j < n and src[j] in " \t\r\n":
                j += 1
            emit("ws", i, j)
            i = j
        elif src.startswith("//", i):
            j = src.find("\n", i)
            if j < 0:
                j = n
            emit("comment", i, j)
            i = j
        elif src.startswith("/*", i):
            depth, j = 1, i + 2
            while j < n and depth:
                if src.startswith("/*", j):
                    depth += 1
                    j += 2
                elif src.startswith("*/", j):
                    depth -= 1
                    j += 2
                else:
                    j += 1
            if depth:
                raise LexError("unterminated block comment at %d" % i)
            emit("comment", i, j)
            i = j
        elif c == '"' or (c in "bc" and src.startswith('"', i + 1)):
            j = i + (1 if c == '"' else 2)
            while j < n and src[j] != '"':
                j += 2 if src[j] == "\\" else 1
            if j >= n:
                raise LexError("unterminated string at %d" % i)
            emit("str", i, j + 1)
            i = j + 1
        elif (c == "r" or (c == "b" and src.startswith("r", i + 1))) and _raw_start(src, i):
            k = i + (1 if c == "r" else 2)
            hashes = 0
            while src[k] == "#":
                hashes += 1
                k += 1
            term = '"' + "#" * hashes
            j = src.find(term, k + 1)
            if j < 0:
                raise LexError("unterminated raw string at %d" % i)
            emit("str", i, j + len(term))
            i = j + len(term)
        elif c == "'":
            # char literal or lifetime
            if i + 2 < n and src[i + 1] == "\\":
                j = src.find("'", i + 3 if src[i + 2] == "'" else i + 2)
                if j < 0:
                    raise LexError("unterminated char at %d" % i)
                emit("char", i, j + 1)
                i = j + 1
            elif i + 2 < n and src[i + 2] == "'":
                emit("char", i, i + 3)
                i += 3
            else:
                j = i + 1
                while j < n and (src[j].isalnum() or src[j] == "_"):
                    j += 1
                emit("lifetime", i, j)
                i = j
        elif c.isalpha() or c == "_":
            j = i
            while j < n and (src[j].isalnum() or src[j] == "_"):
                j += 1
            emit("ident", i, j)
            i = j
        elif c.isdigit():
            j = i
            while j < n and (src[j].isalnum() or src[j] == "_" or
                             (src[j] == "." and j + 1 < n and src[j + 1].isdigit())):
                j += 1
            emit("num", i, j)
            i = j
        elif c in OPEN:
            emit("open", i, i + 1)
            i += 1
        elif c in CLOSE:
            emit("close", i, i + 1)
            i += 1
        else:
            # multi-char punctuation that matters to us
            for p in ("->", "=>", "::", "..=", "..", "&&", "||", "==", "!=", "<=", ">=", "+=", "-=",
                      "*=", "/=", "|=", "&=", "^=", "<<", ">>"):
                if src.startswith(p, i):
                    # never glue '>>' / '<<' / '>=': generics need single '>' tokens
                    if p in ("<<", ">>", ">=", "<="):
                        continue
                    emit("punct", i, i + len(p))
                    i += len(p)
                    break
            else:
                emit("punct", i, i + 1)
                i += 1
    return toks


def _raw_start(src: str, i: int) -> bool:
    k = i + (1 if src[i] == "r" else 2)
    while k < len(src) and src[k] == "#":
        k += 1
    return k < len(src) and src[k] == '"' and (k > i + 1 or src[i] == "r" and src[i+1] == '"' or src[i:i+3] == 'br"')


def sig(toks: List[Tok]) -> List[int]:
    """indices of significant tokens (no whitespace / comments)"""
    return [k for k, t in enumerate(toks) if t.kind not in ("ws", "comment")]


def match_close(toks: List[Tok], k: int) -> int:
    """index of the token closing the bracket opened at toks[k]"""
    assert toks[k].kind == "open", toks[k]
    depth = 0
    for j in range(k, len(toks)):
        t = toks[j]
        if t.kind == "open":
            depth += 1
        elif t.kind == "close":
            depth -= 1
            if depth == 0:
                if OPEN[toks[k].text] != t.text:
                    raise LexError("bracket mismatch at line %d" % t.line)
                return j
    raise LexError("unclosed bracket at line %d" % toks[k].line)


ITEM_KW = {"fn", "struct", "enum", "union", "impl", "trait", "type", "const", "static", "use",
           "mod", "macro_rules", "extern"}
MODIFIERS = {"pub", "unsafe", "async", "default", "const", "extern"}


@dataclass
class Item:
    kind: str                 # fn struct enum impl trait type const static use mod macro other
    name: str                 # ident, or normalised header for impl
    first: int                # token index of first token including attrs/doc comments
    kw: int                   # token index of the keyword
    last: int                 # token index of last token (inclusive)
    body_open: Optional[int] = None   # '{' of body for fn/impl/trait/mod (None for decl-only)
    children: List["Item"] = field(default_factory=list)
    parent: Optional["Item"] = None

    def qual(self) -> str:
        if self.parent is not None and self.parent.kind in ("impl", "trait"):
            return "%s %s::%s" % (self.parent.kind, self.parent.name, self.name)
        return "%s %s" % (self.kind, self.name)


def norm_header(toks: List[Tok], a: int, b: int) -> str:
    """whitespace-free text of significant tokens a..b (exclusive), with single spaces between
    adjacent identifier-like tokens"""
    out = []
    prev_word = False
    for t in toks[a:b]:
        if t.kind in ("ws", "comment"):
            continue
        word = t.kind in ("ident", "lifetime", "num")
        if word and prev_word:
            out.append(" ")
        out.append(t.text)
        prev_word = word
    return "".join(out)


def parse_items(toks: List[Tok], lo: int, hi: int, parent: Optional[Item] = None) -> List[Item]:
    """items between token indices [lo, hi)"""
    items: List[Item] = []
    k = lo
    while k < hi:
        # skip whitespace, remember where attached attrs/comments start
        while k < hi and toks[k].kind == "ws":
            k += 1
        if k >= hi:
            break
        first = k
        # leading comments and attributes
        while k < hi:
            t = toks[k]
            if t.kind in ("ws", "comment"):
                k += 1
            elif t.kind == "punct" and t.text == "#":
                j = k + 1
                while toks[j].kind == "ws":
                    j += 1
                if toks[j].text == "!":
                    j += 1
                    while toks[j].kind == "ws":
                        j += 1
                if toks[j].kind == "open" and toks[j].text == "[":
                    k = match_close(toks, j) + 1
                else:
                    break
            else:
                break
        if k >= hi:
            # trailing comments only
            break
        # a blank line between a comment block and the item detaches the comment block
        first = _detach_comments(toks, first, k)
        # modifiers
        j = k
        while j < hi:
            t = toks[j]
            if t.kind in ("ws", "comment"):
                j += 1
            elif t.kind == "ident" and t.text == "pub":
                j += 1
                jj = j
                while toks[jj].kind == "ws":
                    jj += 1
                if toks[jj].kind == "open" and toks[jj].text == "(":
                    j = match_close(toks, jj) + 1
            elif t.kind == "ident" and t.text in ("unsafe", "async", "default"):
                j += 1
            elif t.kind == "ident" and t.text == "const":
                # `const fn` vs `const NAME`
                jj = j + 1
                while toks[jj].kind == "ws":
                    jj += 1
                if toks[jj].kind == "ident" and toks[jj].text in ("fn", "unsafe", "async", "extern"):
                    j += 1
                else:
                    break
            elif t.kind == "ident" and t.text == "extern":
                jj = j + 1
                while toks[jj].kind == "ws":
                    jj += 1
                if toks[jj].kind == "str":
                    jj += 1
                    while toks[jj].kind == "ws":
                        jj += 1
                if toks[jj].kind == "ident" and toks[jj].text == "fn":
                    j = jj
                else:
                    break
            else:
                break
        kw = j
        t = toks[kw]
        kind = t.text if t.kind == "ident" and t.text in ITEM_KW else "other"
        # find the end
        body_open = None
        depth = 0
        e = kw
        end = None
        semi_only = kind in ("const", "static", "type", "use", "other")
        while e < hi:
            te = toks[e]
            if te.kind == "open":
                if te.text == "{" and depth == 0 and not semi_only:
                    body_open = e
                    end = match_close(toks, e)
                    break
                e = match_close(toks, e) + 1
                continue
            if te.kind == "punct" and te.text == ";" and depth == 0:
                end = e
                break
            e += 1
        if end is None:
            raise LexError("item starting at line %d has no end" % toks[kw].line)
        if kind == "macro_rules":
            kind = "macro"
        # name
        name = ""
        if kind in ("fn", "struct", "enum", "union", "trait", "type", "const", "static", "mod"):
            j = kw + 1
            while toks[j].kind in ("ws", "comment"):
                j += 1
            if toks[j].kind == "ident" and toks[j].text == "mut":
                j += 1
                while toks[j].kind in ("ws", "comment"):
                    j += 1
            name = toks[j].text
        elif kind == "impl":
            name = norm_header(toks, kw + 1, body_open if body_open is not None else end)
            # drop leading generics of impl<...> for matching convenience? keep verbatim.
        it = Item(kind, name, first, kw, end, body_open, [], parent)
        if kind in ("impl", "trait", "mod") and body_open is not None:
            it.children = parse_items(toks, body_open + 1, end, it)
        items.append(it)
        k = end + 1
    return items


def _detach_comments(toks: List[Tok], first: int, k: int) -> int:
    """Given attrs/comments in [first,k), drop leading comment blocks that are separated from the
    item by a blank line; attributes always stay attached (even across a blank line)."""
    start = first
    seen_attr = False
    j = first
    while j < k:
        t = toks[j]
        if t.kind == "punct" and t.text == "#":
            seen_attr = True
        if t.kind == "ws" and t.text.count("\n") >= 2 and not seen_attr:
            start = j + 1
        j += 1
    while start < k and toks[start].kind == "ws":
        start += 1
    return start


def fn_parts(toks: List[Tok], it: Item):
    """for a fn item: (index of '->' or None, index of first token of return type or None,
    index after the last token of the return type, body_open)"""
    assert it.kind == "fn"
    # params: first '(' after name (skipping generics <...>)
    k = it.kw
    while not (toks[k].kind == "open" and toks[k].text == "("):
        k += 1
    pclose = match_close(toks, k)
    stop = it.body_open if it.body_open is not None else it.last
    arrow = None
    j = pclose + 1
    while j < stop:
        if toks[j].kind == "punct" and toks[j].text == "->":
            arrow = j
            break
        if toks[j].kind == "ident" and toks[j].text == "where":
            break
        j += 1
    if arrow is None:
        return None, None, None, pclose
    rs = arrow + 1
    while toks[rs].kind in ("ws", "comment"):
        rs += 1
    re_ = rs
    depth = 0
    while re_ < stop:
        t = toks[re_]
        if t.kind == "open":
            re_ = match_close(toks, re_) + 1
            continue
        if t.kind == "ident" and t.text == "where":
            break
        re_ += 1
    # trim trailing ws
    while toks[re_ - 1].kind in ("ws", "comment"):
        re_ -= 1
    return arrow, rs, re_, pclose


def find_loops(toks: List[Tok], body_open: int, body_close: int) -> List[Tuple[int, int, str]]:
    """(keyword token index, index of the loop body's '{', keyword) for every for/while/loop in
    token order inside the body. Closures and nested fns are not distinguished (none occur in the
    extracted functions; ordinals are checked against the spec's expected keyword)."""
    out = []
    k = body_open + 1
    while k < body_close:
        t = toks[k]
        if t.kind == "ident" and t.text in ("for", "while", "loop"):
            # `for` in `for<'a>` HRTB or `impl X for Y` cannot occur inside bodies we handle
            j = k + 1
            while j < body_close:
                tj = toks[j]
                if tj.kind == "open":
                    if tj.text == "{":
                        break
                    j = match_close(toks, j) + 1
                    continue
                j += 1
            out.append((k, j, t.text))
        k += 1
    return out
