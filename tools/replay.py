"""Replay files: what failed, Verus' own words, and (when the twin finds one) a concrete input.

The search never decides anything: it runs only after Verus has failed an obligation that verified
on the unchanged tree, and its only effect is the content of the replay file and the
`no-failing-input-found` suffix of the VIOLATION line.
"""
from __future__ import annotations
import json, os, subprocess, sys, time, hashlib
ROOT = os.path.dirname(os.path.dirname(os.path.abspath(__file__)))


def twin_search(pid, f, unit_result):
    """ask the executable twin (replay crate, linked against the real beff-core of the current
    working tree) for a small input violating the same clause.  -> dict or None"""
    try:
        import twin
    except ImportError:
        return None
    return twin.search(pid, f, unit_result)


def make_replay(pid, f, unit_result):
    os.makedirs(os.path.join(ROOT, "replays"), exist_ok=True)
    h = hashlib.sha256(f["id"].encode()).hexdigest()[:10]
    path = os.path.join(ROOT, "replays", "%s-%s.json" % (pid, h))
    meta = unit_result["meta"]
    clause_text = None
    for c in meta["clauses"]:
        if c["fn"] == f.get("fn") and c["clause"] == f.get("clause"):
            clause_text = c["text"]
    # Verus' explanation of which conjunct failed
    expanded = ""
    try:
        import vcheck
        fn_short = (f.get("fn") or "").split("::")[-1].split(" ")[-1]
        r = vcheck.run_verus(unit_result["out"], rlimit=vcheck.RLIMIT_RETRY, expand=True, timeout=600)
        expanded = "\n".join(d.get("rendered", "") for d in r["diags"] if d.get("level") == "error")[:12000]
    except Exception as e:  # diagnostics only
        expanded = "expand-errors run failed: %r" % (e,)
    found = None
    try:
        found = twin_search(pid, f, unit_result)
    except Exception as e:
        found = None
        expanded += "\n(twin search failed to run: %r)" % (e,)
    doc = dict(
        property=pid,
        obligation=f["id"],
        kind=f["kind"],
        function=f.get("fn"),
        repo_location=f.get("where"),
        clause=clause_text,
        verus_message=f["message"],
        verus_diagnostic=f["rendered"],
        verus_expanded=expanded,
        solver=dict(cmd=unit_result["res"]["cmd"], breakdown=unit_result.get("breakdown", {})),
        generated_file=unit_result["out"],
        failing_input=found,
        note=None if found else "no-failing-input-found: Verus gives no counterexample; the twin's small-universe search found no input on which the real code violates this clause",
    )
    json.dump(doc, open(path, "w"), indent=1)
    return path, found is not None


def make_bounded_replay(pid, f):
    os.makedirs(os.path.join(ROOT, "replays"), exist_ok=True)
    h = hashlib.sha256(f["id"].encode()).hexdigest()[:10]
    path = os.path.join(ROOT, "replays", "%s-%s.json" % (pid, h))
    doc = dict(property=pid, obligation=f["id"], kind="bounded-standin", function=f.get("fn"),
               message=f["message"], verus_message=f["message"], verus_diagnostic=f["rendered"], failing_input=f["found"],
               note="bounded stand-in (labelled bounded, never counted as proved): either for a callee whose contract is ASSUMED by the proofs, or for a unit Verus could not process on this tree; the input below was found by the twin's small-universe enumeration and is replayed against the real code")
    json.dump(doc, open(path, "w"), indent=1)
    return path


def run_replay(pid, path):
    doc = json.load(open(path))
    print("replay of %s: obligation %s" % (doc["property"], doc["obligation"]))
    print("clause:", doc.get("clause"))
    print(doc.get("verus_diagnostic", ""))
    if doc.get("failing_input"):
        try:
            import twin
            return twin.replay(doc)
        except ImportError:
            print("twin not built; stored input:", json.dumps(doc["failing_input"]))
            return 1
    print("no concrete input stored (no-failing-input-found); re-running the obligation against the current tree")
    import vcheck
    unit = doc["obligation"].split("/")[0]
    r = vcheck.run_unit(unit, tag="replay")
    ids = [f["id"] for f in r.get("failures", [])]
    if doc["obligation"] in ids:
        print("REPRODUCED: obligation still fails on the current tree")
        return 1
    print("not reproduced: obligation verifies on the current tree (status %s)" % r["status"])
    return 0
