"""Python side of the executable twin (replay/ crate, linked against the real beff-core of /repo)."""
from __future__ import annotations
import json, os, shutil, subprocess, time
ROOT = os.path.dirname(os.path.dirname(os.path.abspath(__file__)))
CRATE = os.path.join(ROOT, "replay")
TARGET = os.path.join(ROOT, ".cache", "target")
BIN = os.path.join(TARGET, "release", "beff-twin")
FRONT = os.path.join(TARGET, "release", "beff-front")   # bounded stand-in for the frontend (C04): args start with "front"
REPO = os.environ.get("VERIF_REPO", "/repo")

FAMILY = {"list_shape": "listfold", "bdd_ops": "bdd", "dnf": "dnf", "proper_subtype": "proper", "semtype_ops": "semtype", "to_schema": "schema"}
KNOWN_FNS = {
    "bdd": {"union", "intersect", "diff", "complement", "from_node", "from_atom"},
    "dnf": {"bdd_to_dnf", "bdd_to_dnf_recursive", "dnf_to_bdd"},
    "proper": {"union", "intersect", "diff", "complement"},
    "semtype": {"union", "intersect", "diff", "complement"},
    "schema": set(),
    "listfold": set(),
}


def build(timeout=1500):
    """(re)build the twin against /repo's current working tree; returns error text or None"""
    try:
        shutil.copyfile(os.path.join(REPO, "Cargo.lock"), os.path.join(CRATE, "Cargo.lock"))
    except OSError as e:
        return "cannot copy Cargo.lock: %s" % e
    env = dict(os.environ, CARGO_TARGET_DIR=TARGET, CARGO_NET_OFFLINE="true")
    p = subprocess.run(["cargo", "build", "--release", "--offline", "--quiet"], cwd=CRATE, env=env,
                       capture_output=True, text=True, timeout=timeout)
    if p.returncode != 0:
        return p.stderr[-3000:]
    return None


def run(args, timeout=1800):
    cmd = [FRONT] + args[1:] if args and args[0] == "front" else [BIN] + args
    p = subprocess.run(cmd, capture_output=True, text=True, timeout=timeout)
    rows = []
    for l in p.stdout.split("\n"):
        l = l.strip()
        if l.startswith("{"):
            try:
                rows.append(json.loads(l))
            except json.JSONDecodeError:
                rows.append(dict(raw=l))
    return p.returncode, rows, p.stderr[-2000:]


def target_of(f, unit_result):
    unit = f.get("def_unit") or unit_result["meta"]["unit"]
    fam = FAMILY.get(unit)
    if fam is None:
        return None, None
    fn = (f.get("fn") or "").split("::")[-1].split(" ")[-1]
    if fn not in KNOWN_FNS[fam]:
        fn = None      # helper of the family (iterator, constructors, tag...): try every function of the family
    return fam, fn


def search(pid, f, unit_result):
    fam, fn = target_of(f, unit_result)
    if fam is None:
        return None
    err = build()
    if err:
        return None
    args = [fam] + (["--fn", fn] if fn else [])
    rc, rows, stderr = run(args)
    for r in rows:
        if r.get("panic"):
            return dict(family=fam, fn=fn or "*", panic=True, stderr=stderr,
                        replay_args=args, note="the real code panicked while the twin enumerated its small universe")
        if r.get("failures"):
            first = r["first"]
            return dict(family=r["family"], fn=r["fn"], case=first["case"], input=first["input"], observed=first["observed"],
                        required=first["required"], failures_in_universe=r["failures"], cases_in_universe=r["cases"],
                        replay_args=[r["family"], "--fn", r["fn"], "--case", str(first["case"])])
    return None


def replay(doc):
    fi = doc["failing_input"]
    err = build()
    if err:
        print("twin does not build against the current tree:\n" + err)
        return 2
    rc, rows, stderr = run(fi["replay_args"])
    for r in rows:
        if r.get("panic"):
            print("REPRODUCED: the real code panics:", stderr[-500:])
            return 1
        if r.get("failures"):
            print("REPRODUCED on the current tree")
            print("  input   :", r["first"]["input"])
            print("  observed:", r["first"]["observed"])
            print("  required:", r["first"]["required"])
            return 1
    print("not reproduced: the real code now satisfies the clause on the stored input (%s)" % fi.get("input"))
    return 0


def sanity(pid, seed):
    """thorough tier: the executable reading of the contracts against the real code, whole small universe"""
    t0 = time.time()
    err = build()
    if err:
        return dict(error="twin build failed: " + err[-400:])
    fams = {"C06": ["bdd", "dnf", "proper", "semtype"], "C05": ["semtype", "listfold"], "C04": ["bdd", "dnf", "proper", "semtype"], "C07": ["dnf", "schema"]}   # "schema" also runs the enumerated schema2.get(pid, [])
    out = dict(families=fams, rows=[], disagreements=[], wall_s=0)
    for fam in fams:
        rc, rows, stderr = run([fam])
        for r in rows:
            out["rows"].append({k: r.get(k) for k in ("family", "fn", "cases", "failures")})
            if r.get("failures") or r.get("panic"):
                out["disagreements"].append(r)
    out["wall_s"] = round(time.time() - t0, 1)
    return out
