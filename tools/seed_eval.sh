#!/bin/bash
# usage: seed_eval.sh <seed-dir> <worktree> <props...>
# 1. confirm in the scratch worktree: suite passes with patch, demo fails with patch, demo passes without
# 2. apply to /repo, run ./check <prop> for each prop, undo
SD=$1; WT=$2; shift 2
set -u
cd $WT || exit 9
git checkout -q -- . ; rm -f packages/beff-core/tests/demo.rs
echo "--- demo WITHOUT patch"
cp $SD/demo*.rs packages/beff-core/tests/demo.rs
cargo test -p beff-core --test demo --offline 2>&1 | grep -E "^test result|panicked|FAILED|error\[" | head -5
echo "--- apply patch"
git apply $SD/patch.diff || exit 8
echo "--- demo WITH patch"
cargo test -p beff-core --test demo --offline 2>&1 | grep -E "^test result|panicked|FAILED|error\[" | head -5
rm -f packages/beff-core/tests/demo.rs
echo "--- suite WITH patch"
cargo test --workspace --no-fail-fast --offline 2>&1 | grep -E "^test result" | awk '{p+=$4; f+=$6} END {print "passed="p" failed="f}'
git checkout -q -- . ; git status --short | head -3
echo "--- checks against /repo with patch applied"
git -C /repo apply $SD/patch.diff || exit 7
cd /verif
for p in "$@"; do
  ./check $p 2>&1 | grep -E "^VIOLATION|^  obligation|^UNDECIDED|^KNOWN|HOLDS|VIOLATED|UNDECIDED" | head -12
  echo "rc[$p]=${PIPESTATUS[0]}"
done
git -C /repo checkout -- .
git -C /repo status --short | head -3
