// BOUNDED stand-in for the part of property C04 that no contract reaches: the frontend, the printer and the
// glue around them (swc ASTs, trait objects, HashMap symbol tables - outside Verus' dialect).
// It compiles every program of a small grammar through the public entry point `beff_core::extract` of the REAL
// crate and checks the property's own statement on each: the call returns (no hang: watchdog), does not panic,
// returns generated code or at least one diagnostic, every diagnostic names a file of the project and a range
// inside that file, and emit_code() of an error-free result does not panic or fail.
// Labelled bounded everywhere it is reported; never counted as proved.
use beff_core::diag::Location;
use beff_core::swc_tools::bind_exports::{parse_and_bind, FsModuleResolver};
use beff_core::{BeffUserSettings, BffFileName, EntryPoints, FileManager, ParsedModule};
use std::collections::{BTreeMap, BTreeSet};
use std::rc::Rc;
use std::sync::mpsc;
use std::time::Duration;
use swc_common::{Globals, GLOBALS};

struct Fm {
    fs: BTreeMap<BffFileName, Rc<ParsedModule>>,
}
fn resolve(spec: &str) -> Option<BffFileName> {
    if !spec.starts_with("./") {
        return None;
    }
    let r = spec.replacen("./", "", 1);
    if r == "missing" {
        return None;
    }
    Some(BffFileName::new(format!("{}.ts", r)))
}
impl FileManager for Fm {
    fn get_or_fetch_file(&mut self, name: &BffFileName) -> Option<Rc<ParsedModule>> {
        self.fs.get(name).cloned()
    }
    fn get_existing_file(&self, name: &BffFileName) -> Option<Rc<ParsedModule>> {
        self.fs.get(name).cloned()
    }
    fn resolve_import(&mut self, _c: BffFileName, spec: &str) -> Option<BffFileName> {
        resolve(spec)
    }
}
struct Res {}
impl FsModuleResolver for Res {
    fn resolve_import(&mut self, _c: BffFileName, spec: &str) -> Option<BffFileName> {
        resolve(spec)
    }
}

// what one compilation did, as far as the property is concerned
#[derive(Debug)]
enum Outcome {
    Code,                 // no diagnostics, emit_code() Ok and non-empty
    Diagnostics(usize),   // at least one diagnostic, all well located
    ParseError,           // the parser refused the text (malformed input): reported by the caller as a diagnostic
    Bad(String),          // the property's statement is false on this program
}

fn compile(files: &[(String, String)]) -> Outcome {
    GLOBALS.set(&Globals::new(), || {
        let mut fs = BTreeMap::new();
        let mut lens: BTreeMap<String, usize> = BTreeMap::new();
        let mut texts: BTreeMap<String, String> = BTreeMap::new();
        for (name, text) in files {
            let f = BffFileName::new(name.clone());
            lens.insert(name.clone(), text.len());
            texts.insert(name.clone(), text.clone());
            match parse_and_bind(&mut Res {}, &f, text) {
                Ok(m) => {
                    fs.insert(f, m);
                }
                Err(_) => return Outcome::ParseError,
            }
        }
        let mut man = Fm { fs };
        let entry = EntryPoints {
            parser_entry_point: BffFileName::new("entry.ts".into()),
            settings: BeffUserSettings { string_formats: BTreeSet::from_iter(vec!["password".to_string()]), number_formats: BTreeSet::from_iter(vec!["age".to_string()]) },
        };
        let p = beff_core::extract(&mut man, entry);
        if !p.errors.is_empty() {
            for e in &p.errors {
                if std::env::var("FRONT_DIAG").is_ok() { eprintln!("DIAGNOSTIC: {:?}", e.message); }
                match &e.loc {
                    Location::Full(l) => {
                        let Some(len) = lens.get(&l.file_name.to_string()) else {
                            return Outcome::Bad(format!("a diagnostic names the file {:?}, which is not a file of the project", l.file_name.to_string()));
                        };
                        if !(l.offset_lo <= l.offset_hi && l.offset_hi <= *len + 1) {
                            return Outcome::Bad(format!("a diagnostic's range {}..{} lies outside {} ({} bytes)", l.offset_lo, l.offset_hi, l.file_name.to_string(), len));
                        }
                        let text = &texts[&l.file_name.to_string()];
                        let lines: Vec<&str> = text.split('\n').collect();
                        for lc in [&l.loc_lo, &l.loc_hi] {
                            if !(lc.line >= 1 && lc.line <= lines.len()) {
                                return Outcome::Bad(format!("a diagnostic's line {} lies outside {} ({} lines)", lc.line, l.file_name.to_string(), lines.len()));
                            }
                            if lc.col.0 > lines[lc.line - 1].chars().count() {
                                return Outcome::Bad(format!("a diagnostic's column {} lies outside line {} of {} ({} characters)", lc.col.0, lc.line, l.file_name.to_string(), lines[lc.line - 1].chars().count()));
                            }
                        }
                    }
                    Location::Unknown(u) => {
                        if !lens.contains_key(&u.current_file.to_string()) {
                            return Outcome::Bad(format!("a diagnostic names the file {:?}, which is not a file of the project", u.current_file.to_string()));
                        }
                    }
                }
            }
            return Outcome::Diagnostics(p.errors.len());
        }
        match p.emit_code() {
            Ok(code) => {
                if code.trim().is_empty() {
                    return Outcome::Bad("no diagnostics, and emit_code() returned an empty module".into());
                }
                if let Ok(p) = std::env::var("FRONT_EMIT") { let _ = std::fs::write(p, &code); }
                // every named runtype of the emitted module is defined exactly once, and every reference is to one of them
                let mut keys: Vec<String> = vec![];
                if let Some(start) = code.find("const namedRuntypes = {") {
                    let rest = &code[start..];
                    if let Some(end) = rest.find("};") {
                        for l in rest[..end].lines().skip(1) {
                            let l = l.trim();
                            if let Some(l2) = l.strip_prefix('"') {
                                if let Some(q) = l2.find('"') {
                                    let k = l2[..q].to_string();
                                    if keys.contains(&k) {
                                        return Outcome::Bad(format!("the emitted module defines the named runtype {:?} twice", k));
                                    }
                                    keys.push(k);
                                }
                            }
                        }
                    }
                }
                // a parser is built for every name requested in buildParsers<{ ... }>
                if let Some((_, entry)) = files.iter().find(|(n, _)| n == "entry.ts") {
                    if let (Some(a), Some(bi)) = (entry.find("buildParsers<{"), code.find("const buildParsersInput = {")) {
                        let req = &entry[a + "buildParsers<{".len()..];
                        if let Some(e) = req.find("}>") {
                            let table = &code[bi..];
                            let table = &table[..table.find("};").unwrap_or(table.len())];
                            for part in req[..e].split(',') {
                                let name = part.split(':').next().unwrap_or("").trim();
                                if !name.is_empty() && !table.contains(&format!("\"{}\":", name)) {
                                    return Outcome::Bad(format!("no parser is built for the requested name {:?}", name));
                                }
                            }
                        }
                    }
                }
                let mut rest: &str = &code;
                while let Some(i) = rest.find("new RefRuntype(undefined, \"") {
                    let tail = &rest[i + "new RefRuntype(undefined, \"".len()..];
                    let Some(q) = tail.find('"') else { break };
                    let name = &tail[..q];
                    if !keys.iter().any(|k| k == name) {
                        return Outcome::Bad(format!("the emitted module refers to the named runtype {:?}, which it does not define", name));
                    }
                    rest = &tail[q..];
                }
                Outcome::Code
            }
            Err(e) => Outcome::Bad(format!("no diagnostics, but emit_code() failed: {}", e)),
        }
    })
}

const PRELUDE: &str = r#"
type O = { a: string, b?: number };
type O2 = { a: "x", c: boolean };
type U = "x" | "y";
type Tup = [string, number];
type Rec = { v: number, next: Rec | null };
type RT = [number, ...RT[]];
type G<T> = { g: T };
type Alias = U;
type D1 = { t: "a", x: string };
type D2 = { t?: "b", y: number };
type RS = Set<RS>;
type RM = Map<string, RM | null>;
enum En { A = "a", B = "b" }
interface I1 { a: string; m?: I1 }
interface I2 extends I1 { b: number }
type GC<T extends string> = { [K in T]: K };
type Fn = (x: number) => string;
type Shape = { kind: "circle", r: number } | { kind: "square", x: number } | { kind: "triangle", x: number, y: number };
type KC = { kind: "circle" };
type MK = Map<MK[], string>;
type RI = { a: string, next: (RI & { b: number }) | null };
"#;
fn leaves() -> Vec<&'static str> {
    vec![
        "string", "number", "boolean", "null", "undefined", "\"a\"", "1", "true", "any", "unknown", "never", "Date", "bigint", "void",
        "O", "O2", "U", "Tup", "Rec", "RT", "Alias", "G<string>", "D1", "D2", "RS", "RM", "En", "I1", "I2", "GC<U>", "Fn", "object", "symbol", "Shape", "KC", "MK", "RI",
    ]
}
fn unary(e: &str) -> Vec<String> {
    vec![
        format!("{}[]", paren(e)), format!("[{}]", e), format!("[{}, ...{}[]]", e, paren(e)), format!("{{ k: {} }}", e), format!("{{ k?: {} }}", e),
        format!("Partial<{}>", e), format!("Required<{}>", e), format!("keyof {}", paren(e)), format!("Array<{}>", e),
        format!("Record<string, {}>", e), format!("Record<{}, number>", e), format!("G<{}>", e), format!("{}[\"a\"]", paren(e)),
        format!("{}[number]", paren(e)), format!("Exclude<{}, string>", e), format!("NonNullable<{}>", e), format!("Readonly<{}>", e),
        format!("Omit<{}, \"a\">", e), format!("Pick<{}, \"a\">", e), format!("Map<string, {}>", e), format!("Set<{}>", e),
        format!("Exclude<{}, \"x\">", e), format!("Exclude<{}, 1>", e), format!("{}[0]", paren(e)), format!("{}[\"next\"]", paren(e)),
        format!("{{ [K in {}]: string }}", e), format!("{{ [K in keyof {}]: {}[K] }}", paren(e), paren(e)), format!("[{}?]", e), format!("readonly {}[]", paren(e)),
        format!("{} extends infer I ? I : never", paren(e)), format!("Uppercase<{}>", e), format!("{} | undefined", paren(e)),
        format!("{{ a: {}, [k: string]: {} }}", e, e), format!("StringFormat<{}>", e), format!("`p${{{}}}`", e), format!("[first: {}, second?: {}]", e, e),
        format!("keyof {}[]", paren(e)), format!("Exclude<{}, null | undefined>[\"a\"]", e),
        format!("GC<{}>", e), format!("Lowercase<{}>", e), format!("Capitalize<{}>", e), format!("{{ readonly a: {}; b?: {}[] }}", e, paren(e)),
        format!("NumberFormat<{}>", e), format!("ReadonlyArray<{}>", e), format!("{}[\"b\"][number]", paren(e)),
    ]
}
fn binary(e: &str, f: &str) -> Vec<String> {
    vec![
        format!("{} | {}", paren(e), paren(f)), format!("{} & {}", paren(e), paren(f)), format!("Exclude<{}, {}>", e, f), format!("Extract<{}, {}>", e, f),
        format!("{} extends {} ? 1 : 2", paren(e), paren(f)), format!("Record<{}, {}>", e, f), format!("{}[{}]", paren(e), f),
        format!("Omit<{}, {}>", e, f), format!("Pick<{}, {}>", e, f),
        format!("{} extends {} ? {} : {}", paren(e), paren(f), paren(e), paren(f)), format!("{{ [K in {}]: {} }}", e, f), format!("[{}, ...{}[]]", e, paren(f)),
        format!("Exclude<{}, {}> | Extract<{}, {}>", e, f, f, e), format!("{{ a: {} }} & {{ a: {} }}", e, f),
        format!("Map<{}, {}>", e, f), format!("keyof ({} & {})", paren(e), paren(f)), format!("({} | {})[\"a\"]", paren(e), paren(f)),
    ]
}
fn paren(e: &str) -> String {
    if e.chars().all(|c| c.is_alphanumeric() || c == '"' || c == '_') { e.to_string() } else { format!("({})", e) }
}
// the same program with the prelude in another module: every named type is imported
fn split(e: &str) -> Vec<(String, String)> {
    let lib: String = PRELUDE.lines().map(|l| {
        if l.starts_with("type ") || l.starts_with("interface ") || l.starts_with("enum ") { format!("export {}\n", l) } else { format!("{}\n", l) }
    }).collect();
    let names = "O, O2, U, Tup, Rec, RT, G, Alias, D1, D2, RS, RM, En, I1, I2, GC, Fn, Shape, KC, MK";
    vec![("lib.ts".to_string(), lib), ("entry.ts".to_string(), format!("import {{ {} }} from \"./lib\";\ntype X = {};\nparse.buildParsers<{{ X: X }}>();\n", names, e))]
}
fn single(e: &str) -> Vec<(String, String)> {
    vec![("entry.ts".to_string(), format!("{}type X = {};\nparse.buildParsers<{{ X: X }}>();\n", PRELUDE, e))]
}
// depth: 1 = leaves + one constructor; 2 = + unary over unary, unary over binary (thinned), binary over unary (thinned)
fn programs(depth: usize, offset: usize) -> Vec<(String, Vec<(String, String)>)> {
    let mut out: Vec<(String, Vec<(String, String)>)> = vec![];
    // hand-written multi-file / malformed projects come first: their case numbers stay fixed when the grammar grows
    let mf: Vec<(&str, Vec<(&str, &str)>)> = vec![
        ("missing import", vec![("entry.ts", "import { X } from \"./missing\";\nparse.buildParsers<{ X: X }>();\n")]),
        ("import of a name that is not exported", vec![("t.ts", "type X = string;\n"), ("entry.ts", "import { X } from \"./t\";\nparse.buildParsers<{ X: X }>();\n")]),
        ("cyclic imports", vec![("a.ts", "import { B } from \"./b\";\nexport type A = { b: B | null };\n"), ("b.ts", "import { A } from \"./a\";\nexport type B = { a: A | null };\n"), ("entry.ts", "import { A } from \"./a\";\nparse.buildParsers<{ A: A }>();\n")]),
        ("cyclic alias across files", vec![("a.ts", "import { B } from \"./b\";\nexport type A = B;\n"), ("b.ts", "import { A } from \"./a\";\nexport type B = A;\n"), ("entry.ts", "import { A } from \"./a\";\nparse.buildParsers<{ A: A }>();\n")]),
        ("self alias", vec![("entry.ts", "type A = A;\nparse.buildParsers<{ A: A }>();\n")]),
        ("alias chain into Record key", vec![("entry.ts", "type B = \"a\" | \"b\";\ntype A = B;\ntype R = Record<A, number>;\nparse.buildParsers<{ R: R }>();\n")]),
        ("alias cycle as Record key", vec![("entry.ts", "type A = B;\ntype B = A;\ntype R = Record<A, number>;\nparse.buildParsers<{ R: R }>();\n")]),
        ("Record keyed by itself", vec![("entry.ts", "type K = Record<K, number>;\nparse.buildParsers<{ K: K }>();\n")]),
        ("Record keyed by an alias of keyof itself", vec![("entry.ts", "type O = { a: string };\ntype KO = keyof O;\ntype A1 = KO;\ntype A2 = A1;\ntype R = Record<A2, O>;\nparse.buildParsers<{ R: R }>();\n")]),
        ("circular union aliases", vec![("entry.ts", "type A = B | \"x\";\ntype B = A | \"y\";\nparse.buildParsers<{ A: A }>();\n")]),
        ("circular union aliases as Record key", vec![("entry.ts", "type A = B | \"x\";\ntype B = A | \"y\";\ntype R = Record<A, number>;\nparse.buildParsers<{ R: R }>();\n")]),
        ("default export of a value, typeof import", vec![("t.ts", "const x = { a: 1, b: \"s\" };\nexport default x;\n"), ("entry.ts", "import d from \"./t\";\ntype X = typeof d;\nparse.buildParsers<{ X: X }>();\n")]),
        ("default export of a call expression, typeof import", vec![("t.ts", "function f() { return 1; }\nexport default f();\n"), ("entry.ts", "import d from \"./t\";\ntype X = typeof d;\nparse.buildParsers<{ X: X }>();\n")]),
        ("default export of an identifier that is not defined", vec![("t.ts", "export default nothing;\n"), ("entry.ts", "import d from \"./t\";\ntype X = typeof d;\nparse.buildParsers<{ X: X }>();\n")]),
        ("default export re-exported", vec![("t.ts", "const x = [1, 2] as const;\nexport default x;\n"), ("m.ts", "import d from \"./t\";\nexport default d;\n"), ("entry.ts", "import d from \"./m\";\ntype X = typeof d;\nparse.buildParsers<{ X: X }>();\n")]),
        ("default export of an arrow function, typeof import", vec![("t.ts", "export default (() => 1);\n"), ("entry.ts", "import d from \"./t\";\ntype X = typeof d;\nparse.buildParsers<{ X: X }>();\n")]),
        ("typeof of an imported const with an unsupported initialiser", vec![("t.ts", "export const v = new Date();\nexport const w = { a: v, b: () => 1 };\n"), ("entry.ts", "import { v, w } from \"./t\";\ntype X = typeof v;\ntype Y = typeof w;\nparse.buildParsers<{ X: X, Y: Y }>();\n")]),
        ("default export of an object literal with a member that cannot be typed, long file", vec![("lib.ts", "// padding padding padding padding padding padding padding\n// padding padding padding padding padding padding padding\n// padding padding padding padding padding padding padding\n// padding padding padding padding padding padding padding\n// padding padding padding padding padding padding padding\n// padding padding padding padding padding padding padding\n// padding padding padding padding padding padding padding\n// padding padding padding padding padding padding padding\n// padding padding padding padding padding padding padding\n// padding padding padding padding padding padding padding\n// padding padding padding padding padding padding padding\n// padding padding padding padding padding padding padding\nexport default { a: \"x\", b: /re/ };\n"), ("entry.ts", "import d from \"./lib\";\nparse.buildParsers<{ D: typeof d }>();\n")]),
        ("default-exported identifier bound to an object with a member that cannot be typed, long file", vec![("lib.ts", "// padding padding padding padding padding padding padding\n// padding padding padding padding padding padding padding\n// padding padding padding padding padding padding padding\n// padding padding padding padding padding padding padding\n// padding padding padding padding padding padding padding\n// padding padding padding padding padding padding padding\n// padding padding padding padding padding padding padding\n// padding padding padding padding padding padding padding\n// padding padding padding padding padding padding padding\n// padding padding padding padding padding padding padding\n// padding padding padding padding padding padding padding\n// padding padding padding padding padding padding padding\nconst v = { a: \"x\", b: /re/ };\nexport default v;\n"), ("entry.ts", "import d from \"./lib\";\nparse.buildParsers<{ D: typeof d }>();\n")]),
        ("named export of a const with a member that cannot be typed, long file", vec![("lib.ts", "// padding padding padding padding padding padding padding\n// padding padding padding padding padding padding padding\n// padding padding padding padding padding padding padding\n// padding padding padding padding padding padding padding\n// padding padding padding padding padding padding padding\n// padding padding padding padding padding padding padding\n// padding padding padding padding padding padding padding\n// padding padding padding padding padding padding padding\n// padding padding padding padding padding padding padding\n// padding padding padding padding padding padding padding\n// padding padding padding padding padding padding padding\n// padding padding padding padding padding padding padding\nexport const v = { a: \"x\", b: /re/ };\n"), ("entry.ts", "import { v } from \"./lib\";\nparse.buildParsers<{ D: typeof v }>();\n")]),
        ("type error deep in an imported file, long file", vec![("lib.ts", "// padding padding padding padding padding padding padding\n// padding padding padding padding padding padding padding\n// padding padding padding padding padding padding padding\n// padding padding padding padding padding padding padding\n// padding padding padding padding padding padding padding\n// padding padding padding padding padding padding padding\n// padding padding padding padding padding padding padding\n// padding padding padding padding padding padding padding\n// padding padding padding padding padding padding padding\n// padding padding padding padding padding padding padding\n// padding padding padding padding padding padding padding\n// padding padding padding padding padding padding padding\nexport type T = { a: Missing };\n"), ("entry.ts", "import { T } from \"./lib\";\nparse.buildParsers<{ T: T }>();\n")]),
        ("export star", vec![("t.ts", "export type X = { a: string };\n"), ("m.ts", "export * from \"./t\";\n"), ("entry.ts", "import { X } from \"./m\";\nparse.buildParsers<{ X: X }>();\n")]),
        ("namespace import", vec![("t.ts", "export type X = { a: string };\n"), ("entry.ts", "import * as T from \"./t\";\nparse.buildParsers<{ X: T.X }>();\n")]),
        ("unterminated type", vec![("entry.ts", "type X = { a: string;\nparse.buildParsers<{ X: X }>();\n")]),
        ("empty file", vec![("entry.ts", "")]),
        ("no buildParsers", vec![("entry.ts", "type X = string;\n")]),
        ("buildParsers without type argument", vec![("entry.ts", "parse.buildParsers();\n")]),
        ("duplicate names from two files", vec![("a.ts", "export type X = string;\n"), ("b.ts", "export type X = number;\n"), ("entry.ts", "import { X as XA } from \"./a\";\nimport { X as XB } from \"./b\";\nparse.buildParsers<{ XA: XA, XB: XB }>();\n")]),
        ("interface extends", vec![("entry.ts", "interface A { a: string }\ninterface B extends A { b: number }\nparse.buildParsers<{ B: B }>();\n")]),
        ("enum", vec![("entry.ts", "enum E { A = \"a\", B = \"b\" }\ntype X = E.A | Exclude<E, E.A>;\nparse.buildParsers<{ X: X, E: E }>();\n")]),
        ("generic recursion", vec![("entry.ts", "type L<T> = { v: T, n: L<T> | null };\ntype X = L<string>;\nparse.buildParsers<{ X: X }>();\n")]),
        ("template literal", vec![("entry.ts", "type X = `a${string}` | `${number}px`;\ntype Y = Exclude<X, \"ab\">;\nparse.buildParsers<{ X: X, Y: Y }>();\n")]),
        ("typeof const", vec![("entry.ts", "const c = { a: 1, b: [\"x\", 2] } as const;\ntype X = typeof c;\ntype K = keyof typeof c;\nparse.buildParsers<{ X: X, K: K }>();\n")]),
        ("three files export a generic type of the same name, nested directories", vec![("users/api/page.ts", "export type Page<T> = { items: T[], next: string };\n"), ("admin/users/api/page.ts", "export type Page<T> = { items: T[], total: number };\n"), ("admin/audit.ts", "export type Page<T> = { entries: T[] };\n"),
            ("entry.ts", "import { Page as A } from \"./users/api/page\";\nimport { Page as B } from \"./admin/users/api/page\";\nimport { Page as C } from \"./admin/audit\";\nparse.buildParsers<{ A: A<string>, B: B<string>, C: C<string> }>();\n")]),
        ("three files export a plain type of the same name, nested directories", vec![("users/api/page.ts", "export type Page = { items: string[], next: string };\n"), ("admin/users/api/page.ts", "export type Page = { items: string[], total: number };\n"), ("admin/audit.ts", "export type Page = { entries: string[] };\n"),
            ("entry.ts", "import { Page as A } from \"./users/api/page\";\nimport { Page as B } from \"./admin/users/api/page\";\nimport { Page as C } from \"./admin/audit\";\nparse.buildParsers<{ A: A, B: B, C: C }>();\n")]),
        ("two Exclude results over different recursive object types in one program", vec![("entry.ts", "type T = { v: string, next: T | null };\ntype U = { v: number, next: U | null };\ntype A = Exclude<T | string, string>;\ntype B = Exclude<U | string, string>;\nparse.buildParsers<{ A: A, B: B }>();\n")]),
        ("two Exclude results over recursive types nested at different depths", vec![("entry.ts", "type L1 = { v: string, children: L1[] };\ntype L2 = { v: number, children: L2[] };\ntype W1 = { inner: { deep: L1 } } | number;\ntype W2 = { inner: L2 } | number;\ntype X1 = Exclude<W1, number>;\ntype X2 = Exclude<W2, number>;\nparse.buildParsers<{ X1: X1, X2: X2 }>();\n")]),
        ("three semantic computations over recursive types: Exclude, keyof, indexed access", vec![("entry.ts", "type T = { a: string, next: T | null };\ntype U = { prev: U | null, w: number };\ntype X = Exclude<T | string, string>;\ntype Y = Exclude<U | string, string>;\ntype K = keyof T;\ntype I = U[\"prev\"];\nparse.buildParsers<{ X: X, Y: Y, K: K, I: I }>();\n")]),
        ("the same recursive Exclude requested twice under two names", vec![("entry.ts", "type T = { v: string, next: T | null };\ntype A = Exclude<T | string, string>;\ntype B = Exclude<T | string, string>;\nparse.buildParsers<{ A: A, B: B }>();\n")]),
        ("two default exports in one file (types)", vec![("entry.ts", "type A = string;\ntype B = number;\nexport default A;\nexport { B as default };\nparse.buildParsers<{ A: A }>();\n")]),
        ("two default exports in an imported file (values)", vec![("t.ts", "const a = 1;\nconst b = 2;\nexport default a;\nexport { b as default };\n"), ("entry.ts", "import d from \"./t\";\nparse.buildParsers<{ D: typeof d }>();\n")]),
        ("recursive results of Exclude at top level: object, tuple, through a union", vec![("entry.ts", "type Tree = { kids: Tree[], tag: string };\ntype RT = [number, ...RT[]];\ntype X = Exclude<Tree | string, string>;\ntype Y = Exclude<RT, string>;\ntype Z = Exclude<RT | Tree | null, null>;\nparse.buildParsers<{ X: X, Y: Y, Z: Z }>();\n")]),
        ("enum imported from a longer file, member initialised by a call", vec![("colors.ts", "// padding padding padding padding padding padding padding\n// padding padding padding padding padding padding padding\n// padding padding padding padding padding padding padding\n// padding padding padding padding padding padding padding\n// padding padding padding padding padding padding padding\n// padding padding padding padding padding padding padding\n// padding padding padding padding padding padding padding\n// padding padding padding padding padding padding padding\n// padding padding padding padding padding padding padding\n// padding padding padding padding padding padding padding\n// padding padding padding padding padding padding padding\n// padding padding padding padding padding padding padding\nexport enum Color {\n  Red = \"red\",\n  Custom = makeColor(),\n}\n"), ("entry.ts", "import { Color } from \"./colors\";\nparse.buildParsers<{ C: Color.Custom }>();\n")]),
        ("enum imported from a longer file, member initialised by a constant of that file", vec![("colors.ts", "// padding padding padding padding padding padding padding\n// padding padding padding padding padding padding padding\n// padding padding padding padding padding padding padding\n// padding padding padding padding padding padding padding\n// padding padding padding padding padding padding padding\n// padding padding padding padding padding padding padding\n// padding padding padding padding padding padding padding\n// padding padding padding padding padding padding padding\n// padding padding padding padding padding padding padding\n// padding padding padding padding padding padding padding\n// padding padding padding padding padding padding padding\n// padding padding padding padding padding padding padding\nconst BASE = \"red\" as const;\nexport enum Color {\n  Red = BASE,\n  Blue = \"blue\",\n}\n"), ("entry.ts", "import { Color } from \"./colors\";\nparse.buildParsers<{ C: Color.Red, D: Color }>();\n")]),
        ("enum member types and Exclude over an imported enum", vec![("colors.ts", "export enum Color { Red = \"red\", Blue = \"blue\", N = 1 }\n"), ("entry.ts", "import { Color } from \"./colors\";\ntype X = Exclude<Color, Color.Red>;\ntype Y = Color.N | Color.Blue;\nparse.buildParsers<{ X: X, Y: Y }>();\n")]),
        ("generic alias with a semantic computation instantiated with two recursive tuples", vec![("entry.ts", "type L1 = [number, ...L1[]];\ntype L2 = [string, ...L2[]];\ntype NoNull<T> = Exclude<T, null>;\ntype A = NoNull<L1>;\ntype B = NoNull<L2>;\nparse.buildParsers<{ A: A, B: B }>();\n")]),
        ("generic alias with keyof / indexed access instantiated with two recursive objects", vec![("entry.ts", "type R1 = { v: number, next: R1 | null };\ntype R2 = { w: string, prev: R2 | null };\ntype NN<T> = Exclude<T, null>;\ntype K<T> = keyof T;\ntype A = NN<R1 | null>;\ntype B = NN<R2 | null>;\ntype C = K<R1>;\ntype D = K<R2>;\nparse.buildParsers<{ A: A, B: B, C: C, D: D }>();\n")]),
        ("import type expression with a local type argument, long entry file", vec![("b.ts", "export type Box<T> = { v: T };\n"), ("entry.ts", "// padding padding padding padding padding padding padding\n// padding padding padding padding padding padding padding\n// padding padding padding padding padding padding padding\n// padding padding padding padding padding padding padding\ntype L = { a: string };\ntype X = import(\"./b\").Box<L>;\nparse.buildParsers<{ X: X }>();\n")]),
        ("import type expression with a type argument that does not exist, long entry file", vec![("b.ts", "export type Box<T> = { v: T };\n"), ("entry.ts", "// padding padding padding padding padding padding padding\n// padding padding padding padding padding padding padding\n// padding padding padding padding padding padding padding\n// padding padding padding padding padding padding padding\ntype X = import(\"./b\").Box<Missing>;\nparse.buildParsers<{ X: X }>();\n")]),
        ("typeof a property of an imported constant whose initialiser mentions a constant of its own module", vec![("lib.ts", "// padding padding padding padding padding padding padding\n// padding padding padding padding padding padding padding\n// padding padding padding padding padding padding padding\n// padding padding padding padding padding padding padding\nconst DEFAULT_PORT = 8080;\nexport const cfg = { port: DEFAULT_PORT, host: \"h\" };\n"), ("entry.ts", "import { cfg } from \"./lib\";\nimport * as ns from \"./lib\";\ntype P = typeof cfg.port;\ntype Q = typeof ns.cfg.host;\nparse.buildParsers<{ P: P, Q: Q }>();\n")]),
        ("a named Map next to named objects inside Exclude and a conditional type", vec![("entry.ts", "type Obj = { m: Index, n: number };\ntype Index = Map<string, Obj | null>;\ntype X = Exclude<Obj | Index | string, string>;\ntype Y = Index extends Map<string, unknown> ? 1 : 2;\nparse.buildParsers<{ X: X, Y: Y }>();\n")]),
        ("two same-named enums in two modules, members used as type arguments", vec![("a.ts", "export enum Status { Active = \"a\", Off = \"o\" }\n"), ("b.ts", "export enum Status { Active = \"b\", Off = \"x\" }\n"), ("entry.ts", "import * as a from \"./a\";\nimport * as b from \"./b\";\ntype Tagged<T> = { tag: T };\nparse.buildParsers<{ A: Tagged<a.Status.Active>, B: Tagged<b.Status.Active>, C: a.Status.Active, D: b.Status.Active }>();\n")]),
        ("export * cycle between two modules, a name that exists", vec![("a.ts", "export * from \"./b\";\nexport type A = { a: string };\n"), ("b.ts", "export * from \"./a\";\nexport type B = { b: number };\n"), ("entry.ts", "import { A, B } from \"./a\";\nparse.buildParsers<{ A: A, B: B }>();\n")]),
        ("export * cycle between two modules, a name that does not exist", vec![("a.ts", "export * from \"./b\";\n"), ("b.ts", "export * from \"./a\";\n"), ("entry.ts", "import { Nope } from \"./a\";\nimport { v } from \"./b\";\nparse.buildParsers<{ N: Nope, V: typeof v }>();\n")]),
        ("union whose members share a discriminator value", vec![("entry.ts", "type X = { a: \"x\" | \"y\" } | { a: \"x\", c: boolean };\nparse.buildParsers<{ X: X }>();\n")]),
        ("union of three members with pairwise overlapping discriminator values", vec![("entry.ts", "type X = { a: \"x\" | \"y\", b: string } | { a: \"x\" | \"z\", c: boolean } | { a: \"z\" | \"y\" };\ntype Y = { k: \"p\" | \"q\", v: X } | { k: \"q\" };\nparse.buildParsers<{ X: X, Y: Y }>();\n")]),
        ("enum member in value position, initialised by a constant of the (longer) enum module", vec![("e.ts", "// padding padding padding padding padding padding padding\n// padding padding padding padding padding padding padding\n// padding padding padding padding padding padding padding\n// padding padding padding padding padding padding padding\n// padding padding padding padding padding padding padding\n// padding padding padding padding padding padding padding\nconst BASE = \"base\";\nexport enum E { A = BASE, B = \"b\" }\n"), ("entry.ts", "import { E } from \"./e\";\nconst x = { a: E.A } as const;\nparse.buildParsers<{ X: typeof x }>();\n")]),
        ("enum member in value position, initialised by a regex in the (longer) enum module", vec![("e.ts", "// padding padding padding padding padding padding padding\n// padding padding padding padding padding padding padding\n// padding padding padding padding padding padding padding\n// padding padding padding padding padding padding padding\n// padding padding padding padding padding padding padding\n// padding padding padding padding padding padding padding\nexport enum E { A = /x/, B = \"b\" }\n"), ("entry.ts", "import { E } from \"./e\";\nconst x = { a: E.A } as const;\nparse.buildParsers<{ X: typeof x }>();\n")]),
        ("alias-only cycle as the check type of a conditional type", vec![("entry.ts", "type A = B;\ntype B = A;\ntype X = A extends string ? \"y\" : \"n\";\nparse.buildParsers<{ X: X }>();\n")]),
        ("self alias under Exclude", vec![("entry.ts", "type A = A;\ntype X = Exclude<A | \"a\", \"a\">;\nparse.buildParsers<{ X: X }>();\n")]),
        ("alias-only cycle over two modules inside a conditional type", vec![("a.ts", "import { B } from \"./b\";\nexport type A = B;\n"), ("b.ts", "import { A } from \"./a\";\nexport type B = A;\n"), ("entry.ts", "import { A } from \"./a\";\ntype X = { v: A } extends { v: string } ? 1 : 2;\nparse.buildParsers<{ X: X }>();\n")]),
        ("alias of a recursive object in a conditional type", vec![("entry.ts", "type A = B;\ntype B = { next: A | null };\ntype X = A extends { next: any } ? \"y\" : \"n\";\nparse.buildParsers<{ X: X }>();\n")]),
        ("four files export a type of the same name at different depths", vec![("a/t.ts", "export type T = { a: string };\n"), ("b/a/t.ts", "export type T = { b: string };\n"), ("c/b/a/t.ts", "export type T = { c: string };\n"), ("t.ts", "export type T = { d: string };\n"),
            ("entry.ts", "import { T as T1 } from \"./a/t\";\nimport { T as T2 } from \"./b/a/t\";\nimport { T as T3 } from \"./c/b/a/t\";\nimport { T as T4 } from \"./t\";\nparse.buildParsers<{ T1: T1, T2: T2, T3: T3, T4: T4 }>();\n")]),
    ];
    for (d, fs) in mf {
        out.push((d.to_string(), fs.into_iter().map(|(a, b)| (a.to_string(), b.to_string())).collect()));
    }
    // generated: the same type name exported from 2 or 3 files laid out in every way over a few directory shapes
    let paths = ["t.ts", "a/t.ts", "b/t.ts", "a/b/t.ts", "b/a/t.ts", "a/a/t.ts", "c/b/a/t.ts", "c/a/t.ts"];
    for generic in [false, true] {
        for i in 0..paths.len() { for j in (i + 1)..paths.len() { for k in (j + 1)..=paths.len() {
            let chosen: Vec<usize> = if k == paths.len() { vec![i, j] } else { vec![i, j, k] };
            let mut files: Vec<(String, String)> = vec![];
            let mut entry = String::new();
            let mut req: Vec<String> = vec![];
            for (n, pi) in chosen.iter().enumerate() {
                let field = ["x", "y", "z"][n];
                files.push((paths[*pi].to_string(), if generic { format!("export type Page<T> = {{ {}: T[] }};\n", field) } else { format!("export type Page = {{ {}: string }};\n", field) }));
                entry.push_str(&format!("import {{ Page as P{} }} from \"./{}\";\n", n, paths[*pi].trim_end_matches(".ts")));
                req.push(if generic { format!("P{}: P{}<string>", n, n) } else { format!("P{}: P{}", n, n) });
            }
            entry.push_str(&format!("parse.buildParsers<{{ {} }}>();\n", req.join(", ")));
            files.push(("entry.ts".to_string(), entry));
            out.push((format!("same type name in {:?} ({})", chosen.iter().map(|x| paths[*x]).collect::<Vec<_>>(), if generic { "generic" } else { "plain" }), files));
        } } }
    }
    // generated: one generic instantiated twice with string literals that are not identifiers
    let lits = ["a-b", "a.b", "a b", "a/b", "a:b", "a_b", "a+b", "user/created", "user:created"];
    for i in 0..lits.len() { for j in (i + 1)..lits.len() {
        let src = format!("type Box<T> = {{ v: T }};\nparse.buildParsers<{{ A: Box<\"{}\">, B: Box<\"{}\"> }}>();\n", lits[i], lits[j]);
        out.push((format!("Box<{:?}> and Box<{:?}>", lits[i], lits[j]), vec![("entry.ts".to_string(), src)]));
    } }
    // generated: unions of 2 to 4 object types discriminated by a property whose type is a set of string literals, the
    // sets overlapping in every way over four literals (a second property tells the members apart)
    let dl = ["a", "b", "c", "d"];
    let dsets: Vec<String> = (1..16u8).map(|m| (0..4).filter(|i| (m >> i) & 1 == 1).map(|i| format!("\"{}\"", dl[i])).collect::<Vec<_>>().join(" | ")).collect();
    let n = dsets.len();
    for i in 0..n { for j in i..n { for k in j..=n { for l in k..=n {
        // k == n / l == n stand for "no third / fourth member"
        if k == n && l != n { continue; }
        let mut chosen = vec![i, j];
        if k < n { chosen.push(k); }
        if l < n { if k == n { continue; } chosen.push(l); }
        let members: Vec<String> = chosen.iter().enumerate().map(|(m, si)| format!("{{ t: {}, p{}: string }}", dsets[*si], m)).collect();
        let src = format!("type X = {};\nparse.buildParsers<{{ X: X }}>();\n", members.join(" | "));
        out.push((format!("discriminated union {}", members.join(" | ")), vec![("entry.ts".to_string(), src)]));
    } } } }
    // generated: documentation comments of many shapes (tabs, no space after the star, multi-byte blanks and letters,
    // tags, empty and one-line forms, a star-only line, CRLF) in front of a type, of a property and of the entry call
    let docs: Vec<&str> = vec![
        "/** plain */", "/**\n * two\n * lines\n */", "/**\n *no space after the star\n */", "/**\n *\ttab after the star\n */",
        "/**\n *\u{3000}ideographic space after the star\n */", "/**\n *\u{a0}no-break space after the star\n */", "/**\n * \u{e9}\u{4e2d}\u{1f600} letters\n */",
        "/**\n *\u{1f600}\n */", "/***/", "/** */", "/**\n *\n */", "/**\n\n */", "/**\r\n * crlf\r\n */", "/**\n * @deprecated\n * @format x\n */",
        "/**\n \u{3000}* blank before the star\n */", "/**\n* star in the first column\n*/", "/** \u{2028} line separator */", "/**\n * trailing \u{3000}\n */",
        "// line comment \u{3000}", "/* block \u{a0} */",
    ];
    for d in &docs {
        out.push((format!("doc comment {:?} before a type", d), vec![("entry.ts".to_string(), format!("{}\ntype X = {{ a: string }};\nparse.buildParsers<{{ X: X }}>();\n", d))]));
        out.push((format!("doc comment {:?} before a property", d), vec![("entry.ts".to_string(), format!("type X = {{\n  {}\n  a: string,\n  {}\n  b?: number }};\nparse.buildParsers<{{ X: X }}>();\n", d, d))]));
        out.push((format!("doc comment {:?} before an exported interface in another module", d), vec![("t.ts".to_string(), format!("{}\nexport interface X {{\n  {}\n  a: string }}\n", d, d)), ("entry.ts".to_string(), "import { X } from \"./t\";\nparse.buildParsers<{ X: X }>();\n".to_string())]));
    }
    let ls = leaves();
    for l in &ls { out.push((l.to_string(), single(l))); }
    let mut d1: Vec<String> = vec![];
    for l in &ls { for u in unary(l) { d1.push(u); } }
    for a in &ls { for b in &ls { for e in binary(a, b) { d1.push(e); } } }
    for e in &d1 { out.push((e.clone(), single(e))); }
    // every third depth-1 program once more with the named types imported from another module
    for (k, e) in d1.iter().enumerate() { if k % 3 == offset % 3 { out.push((format!("{} (prelude imported from lib.ts)", e), split(e))); } }
    if depth >= 2 {
        // unary over every depth-1 expression whose index is a multiple of 7 (thinned), and binary with a leaf
        for (k, e) in d1.iter().enumerate() {
            if k % 7 == offset % 7 { for u in unary(e) { out.push((u.clone(), single(&u))); } }
            if k % 41 == offset % 41 { for l in &ls { for b in binary(e, l) { out.push((b.clone(), single(&b))); } for b in binary(l, e) { out.push((b.clone(), single(&b))); } } }
        }
    }
    out
}

// child mode: run the cases from `--from`, print `S n` when a case starts, `F {json}` for a failing case,
// `E code diag parse cases` at the end. parent mode (default): run children, and when one dies (a stack overflow
// aborts the process and cannot be caught) record the case it was in as a failure and restart after it.
fn child(depth: usize, offset: usize, from: u64, only: Option<u64>, timeout_s: u64) {
    use std::io::Write;
    std::panic::set_hook(Box::new(|_| {}));
    let mut progs = programs(depth, offset);
    if let Ok(pth) = std::env::var("FRONT_SRC") {
        progs = vec![("FRONT_SRC".to_string(), vec![("entry.ts".to_string(), std::fs::read_to_string(pth).expect("readable"))])];
    }
    let mut cases = 0u64;
    let (mut n_code, mut n_diag, mut n_parse) = (0u64, 0u64, 0u64);
    let mut hung = 0;
    let mut worker: Option<(mpsc::Sender<Vec<(String, String)>>, mpsc::Receiver<Outcome>)> = None;
    let so = std::io::stdout();
    for (descr, files) in progs {
        cases += 1;
        if cases < from { continue; }
        if let Some(c) = only { if c != cases { continue; } }
        { let mut o = so.lock(); let _ = writeln!(o, "S {} {} {} {}", cases, n_code, n_diag, n_parse); let _ = o.flush(); }
        // one long-lived worker (64 MB stack: deep but finite recursion must not be mistaken for a crash); it is
        // replaced only after a hang
        if worker.is_none() {
            let (jtx, jrx) = mpsc::channel::<Vec<(String, String)>>();
            let (rtx, rrx) = mpsc::channel::<Outcome>();
            let _ = std::thread::Builder::new().stack_size(64 << 20).spawn(move || {
                while let Ok(fl) = jrx.recv() {
                    let r = std::panic::catch_unwind(|| compile(&fl));
                    let _ = rtx.send(match r {
                        Ok(o) => o,
                        Err(p) => Outcome::Bad(format!("the compiler PANICS: {}", p.downcast_ref::<String>().cloned().or(p.downcast_ref::<&str>().map(|s| s.to_string())).unwrap_or("?".into()))),
                    });
                }
            });
            worker = Some((jtx, rrx));
        }
        let (jtx, rrx) = worker.as_ref().unwrap();
        let _ = jtx.send(files.clone());
        let out = match rrx.recv_timeout(Duration::from_secs(timeout_s)) {
            Ok(o) => o,
            Err(_) => { hung += 1; worker = None; Outcome::Bad(format!("the compiler does not return within {} s (HANG)", timeout_s)) }
        };
        match out {
            Outcome::Code => n_code += 1,
            Outcome::Diagnostics(_) => n_diag += 1,
            Outcome::ParseError => n_parse += 1,
            Outcome::Bad(why) => {
                let mut o = so.lock();
                let _ = writeln!(o, "F {}", fail_json(cases, &descr, &files, &why));
                let _ = o.flush();
            }
        }
        if hung >= 2 {
            // hung workers keep a core busy each: hand over to a fresh process
            let mut o = so.lock();
            let _ = writeln!(o, "R {} {} {} {}", n_code, n_diag, n_parse, cases + 1);
            let _ = o.flush();
            std::process::exit(0);
        }
    }
    let mut o = so.lock();
    let _ = writeln!(o, "E {} {} {} {}", n_code, n_diag, n_parse, cases);
    let _ = o.flush();
    std::process::exit(0);
}
fn fail_json(case: u64, descr: &str, files: &[(String, String)], why: &str) -> String {
    let src: Vec<String> = files.iter().map(|(n, t)| format!("// {}\n{}", n, t.replace(PRELUDE, "/* prelude types O, O2, U, Tup, Rec, RT, G<T>, Alias, D1, D2, RS, RM, En, I1, I2, GC<T>, Fn, Shape, KC, MK */\n"))).collect();
    format!("{{\"case\":{},\"input\":{:?},\"observed\":{:?},\"required\":{:?}}}", case, format!("{} :: {}", descr, src.join("\n")), why,
        "compilation returns promptly with generated code or well-located diagnostics; it never panics, crashes or loops")
}

// ---------------------------------------------------------------------------------------------------------------
// family `cond` (property C05, bounded, at SOURCE level): `type X = V extends B ? 1 : 2` where V is the literal type
// of a finite value (consts, closed tuples, exact objects) and B a type over a few named, possibly recursive
// definitions; the branch the compiler takes is compared with membership of the value in B, computed by recursion
// on the value. Exact in both directions. This goes through the real frontend (aliases, conditional types, the
// conversion of named types it builds itself), not through hand-made NamedSchema values as the twin's `refs`.
#[derive(Clone, Debug, PartialEq)]
enum CV { Null, Num(i64), Str(&'static str), List(Vec<CV>), Obj(Vec<(&'static str, CV)>), Undef }
#[derive(Clone, Debug)]
// an object property whose name ends in `?` is optional: it may be absent, and (TypeScript's default reading) present with the value `undefined`
enum CT { Null, Num, Str, Arr(Box<CT>), Tup(Vec<CT>, Option<Box<CT>>), Obj(Vec<(&'static str, CT)>), Or(Vec<CT>), Ref(&'static str), Undef }
fn cv_ts(v: &CV) -> String {
    match v {
        CV::Null => "null".into(),
        CV::Undef => "undefined".into(),
        CV::Num(i) => format!("{}", i),
        CV::Str(s) => format!("\"{}\"", s),
        CV::List(xs) => format!("[{}]", xs.iter().map(cv_ts).collect::<Vec<_>>().join(", ")),
        CV::Obj(kv) => format!("{{ {} }}", kv.iter().map(|(k, x)| format!("{}: {}", k, cv_ts(x))).collect::<Vec<_>>().join(", ")),
    }
}
fn ct_ts(t: &CT) -> String {
    match t {
        CT::Null => "null".into(), CT::Num => "number".into(), CT::Str => "string".into(), CT::Undef => "undefined".into(),
        CT::Arr(i) => format!("({})[]", ct_ts(i)),
        CT::Tup(p, r) => { let mut parts: Vec<String> = p.iter().map(ct_ts).collect(); if let Some(r) = r { parts.push(format!("...({})[]", ct_ts(r))); } format!("[{}]", parts.join(", ")) }
        CT::Obj(fs) => format!("{{ {} }}", fs.iter().map(|(k, t)| format!("{}: {}", k, ct_ts(t))).collect::<Vec<_>>().join(", ")),
        CT::Or(vs) => vs.iter().map(|t| format!("({})", ct_ts(t))).collect::<Vec<_>>().join(" | "),
        CT::Ref(n) => n.to_string(),
    }
}
fn ct_member(t: &CT, v: &CV, defs: &[(&'static str, CT)]) -> bool {
    match t {
        CT::Null => *v == CV::Null,
        CT::Undef => *v == CV::Undef,
        CT::Num => matches!(v, CV::Num(_)),
        CT::Str => matches!(v, CV::Str(_)),
        CT::Arr(i) => match v { CV::List(xs) => xs.iter().all(|x| ct_member(i, x, defs)), _ => false },
        CT::Tup(p, r) => match v {
            CV::List(xs) => xs.len() >= p.len() && (xs.len() == p.len() || r.is_some())
                && xs.iter().enumerate().all(|(i, x)| if i < p.len() { ct_member(&p[i], x, defs) } else { ct_member(r.as_ref().unwrap(), x, defs) }),
            _ => false,
        },
        CT::Obj(fs) => match v {
            CV::Obj(kv) => fs.iter().all(|(k, t)| { let (name, opt) = match k.strip_suffix('?') { Some(n) => (n, true), None => (*k, false) }; match kv.iter().find(|(k2, _)| *k2 == name) { Some((_, x)) => ct_member(t, x, defs) || (opt && *x == CV::Undef), None => opt } }),
            _ => false,
        },
        CT::Or(vs) => vs.iter().any(|t| ct_member(t, v, defs)),
        CT::Ref(n) => ct_member(&defs.iter().find(|(k, _)| k == n).unwrap().1, v, defs),
    }
}
fn cv_values(depth: usize) -> Vec<CV> {
    let atoms = vec![CV::Null, CV::Num(1), CV::Str("a")];
    if depth == 0 { return atoms; }
    let sub = cv_values(depth - 1);
    let mut out = atoms;
    out.push(CV::List(vec![]));
    for a in &sub { out.push(CV::List(vec![a.clone()])); out.push(CV::Obj(vec![("v", CV::Num(1)), ("next", a.clone())])); }
    let thin: Vec<&CV> = sub.iter().take(10).collect();
    for a in &thin { for c in &thin { out.push(CV::List(vec![(*a).clone(), (*c).clone()])); } }
    let mut uniq: Vec<CV> = vec![];
    for v in out.into_iter() { if !uniq.contains(&v) { uniq.push(v); } }
    uniq
}
fn cond_family(only: Option<u64>) {
    let b = |t: CT| Box::new(t);
    let defs: Vec<(&'static str, CT)> = vec![
        ("T", CT::Tup(vec![CT::Num], Some(b(CT::Ref("T"))))),
        ("L", CT::Obj(vec![("v", CT::Num), ("next", CT::Or(vec![CT::Null, CT::Ref("L")]))])),
        ("A", CT::Tup(vec![CT::Num], Some(b(CT::Ref("B"))))),
        ("B", CT::Tup(vec![CT::Str], Some(b(CT::Ref("A"))))),
        ("P", CT::Tup(vec![CT::Num, CT::Str], None)),
        ("Q", CT::Tup(vec![CT::Num], Some(b(CT::Str)))),
        ("W", CT::Tup(vec![CT::Arr(b(CT::Ref("W")))], None)),
        ("U", CT::Or(vec![CT::Null, CT::Tup(vec![CT::Num, CT::Ref("U")], None)])),
        ("R", CT::Arr(b(CT::Ref("R")))),
    ];
    let mut targets: Vec<CT> = vec![];
    for (n, _) in &defs {
        targets.push(CT::Ref(n));
        targets.push(CT::Arr(b(CT::Ref(n))));
        targets.push(CT::Tup(vec![CT::Ref(n)], None));
        targets.push(CT::Tup(vec![CT::Num], Some(b(CT::Ref(n)))));
        targets.push(CT::Or(vec![CT::Null, CT::Ref(n)]));
        targets.push(CT::Obj(vec![("next", CT::Ref(n))]));
    }
    targets.push(CT::Or(vec![CT::Ref("T"), CT::Ref("P")]));
    targets.push(CT::Or(vec![CT::Ref("A"), CT::Ref("B")]));
    let prelude: String = defs.iter().map(|(n, t)| format!("type {} = {};\n", n, ct_ts(t))).collect();
    let values = cv_values(2);
    let (mut cases, mut skipped) = (0u64, 0u64);
    let mut failed: Vec<u64> = vec![];
    let mut first: Option<String> = None;
    std::panic::set_hook(Box::new(|_| {}));
    for t in &targets { for v in &values {
        cases += 1;
        if let Some(c) = only { if c != cases { continue; } }
        let src = format!("{}type X = {} extends {} ? 1 : 2;\nparse.buildParsers<{{ X: X }}>();\n", prelude, cv_ts(v), ct_ts(t));
        let spec = ct_member(t, v, &defs);
        let files = vec![("entry.ts".to_string(), src.clone())];
        let answer: Result<Option<bool>, String> = match std::panic::catch_unwind(|| {
            GLOBALS.set(&Globals::new(), || {
                let f = BffFileName::new("entry.ts".into());
                let m = match parse_and_bind(&mut Res {}, &f, &files[0].1) { Ok(m) => m, Err(_) => return None };
                let mut fs = BTreeMap::new();
                fs.insert(f, m);
                let mut man = Fm { fs };
                let p = beff_core::extract(&mut man, EntryPoints { parser_entry_point: BffFileName::new("entry.ts".into()),
                    settings: BeffUserSettings { string_formats: BTreeSet::new(), number_formats: BTreeSet::new() } });
                if !p.errors.is_empty() { return None; }
                let out = p.debug_print();
                if out.contains("type X = 1;") { Some(true) } else if out.contains("type X = 2;") { Some(false) } else { None }
            })
        }) { Ok(a) => Ok(a), Err(_) => Err("the compiler PANICS".to_string()) };
        let bad = match answer {
            Ok(None) => { skipped += 1; None }   // a diagnostic (e.g. an unsupported recursive definition): not an answer
            Ok(Some(r)) => if r != spec { Some(format!("the conditional type takes the branch {}", if r { 1 } else { 2 })) } else { None },
            Err(e) => Some(e),
        };
        if let Some(obs) = bad {
            failed.push(cases);
            if std::env::var("TWIN_ALL").is_ok() { eprintln!("FAIL case {} | {} extends {} | {} | expected {}", cases, cv_ts(v), ct_ts(t), obs, if spec { 1 } else { 2 }); }
            if first.is_none() {
                first = Some(format!("{{\"case\":{},\"input\":{:?},\"observed\":{:?},\"required\":{:?}}}", cases, src, obs,
                    format!("branch {} (the value {} a member of the type, by recursion on the value)", if spec { 1 } else { 2 }, if spec { "is" } else { "is not" })));
            }
        }
    } }
    eprintln!("cond: {} questions answered with a diagnostic instead of a branch (skipped)", skipped);
    println!("{{\"family\":\"cond\",\"fn\":\"extract\",\"cases\":{},\"failures\":{},\"failed_cases\":{:?},\"first\":{}}}", cases, failed.len(), failed, first.unwrap_or("null".into()));
}

// family `condlist` (C05, bounded, source level): `type X = A extends B | C ? 1 : 2` for tuple types with a prefix up
// to length 2 over {string, number, string | number} and an optional rest of the same kinds (52 shapes), against
// brute force over all lists of length <= 4 over string / number / boolean elements. `thin` keeps every n-th triple.
fn condlist_family(only: Option<u64>, thin: u64) {
    let items: [u8; 3] = [1, 2, 3];
    type Shape = (Vec<u8>, Option<u8>);
    let mut shapes: Vec<Shape> = vec![];
    for len in 0..=2usize {
        let mut idx = vec![0usize; len];
        loop {
            let pre: Vec<u8> = idx.iter().map(|i| items[*i]).collect();
            shapes.push((pre.clone(), None));
            for r in items { shapes.push((pre.clone(), Some(r))); }
            let mut k = 0;
            loop { if k == len { break; } idx[k] += 1; if idx[k] < 3 { break; } idx[k] = 0; k += 1; }
            if k == len { break; }
        }
    }
    let item_ts = |m: u8| match m { 1 => "string", 2 => "number", _ => "string | number" };
    let shape_ts = |s: &Shape| { let mut parts: Vec<String> = s.0.iter().map(|m| item_ts(*m).to_string()).collect(); if let Some(r) = s.1 { parts.push(format!("...({})[]", item_ts(r))); } format!("[{}]", parts.join(", ")) };
    let in_shape = |s: &Shape, l: &[usize]| -> bool {
        if l.len() < s.0.len() { return false; }
        if l.len() > s.0.len() && s.1.is_none() { return false; }
        l.iter().enumerate().all(|(i, v)| { let m = if i < s.0.len() { s.0[i] } else { s.1.unwrap() }; (m >> *v) & 1 == 1 })
    };
    let mut lists: Vec<Vec<usize>> = vec![vec![]];
    let mut frontier: Vec<Vec<usize>> = vec![vec![]];
    for _ in 0..4 { let mut next = vec![]; for l in &frontier { for b in 0..3usize { let mut l2 = l.clone(); l2.push(b); next.push(l2); } } lists.extend(next.iter().cloned()); frontier = next; }
    let member: Vec<Vec<bool>> = shapes.iter().map(|s| lists.iter().map(|l| in_shape(s, l)).collect()).collect();
    let n = shapes.len();
    let (mut cases, mut skipped) = (0u64, 0u64);
    let mut evaluated = 0u64;
    let mut failed: Vec<u64> = vec![];
    let mut first: Option<String> = None;
    std::panic::set_hook(Box::new(|_| {}));
    for a in 0..n { for b in 0..n { for c in 0..n {
        cases += 1;
        if let Some(o) = only { if o != cases { continue; } } else if cases % thin != 0 { continue; }
        evaluated += 1;
        let spec = (0..lists.len()).all(|k| !member[a][k] || member[b][k] || member[c][k]);
        let src = format!("type A = {};\ntype B = {};\ntype C = {};\ntype X = A extends B | C ? 1 : 2;\nparse.buildParsers<{{ X: X }}>();\n", shape_ts(&shapes[a]), shape_ts(&shapes[b]), shape_ts(&shapes[c]));
        let answer: Result<Option<bool>, String> = match std::panic::catch_unwind(|| {
            GLOBALS.set(&Globals::new(), || {
                let f = BffFileName::new("entry.ts".into());
                let m = match parse_and_bind(&mut Res {}, &f, &src) { Ok(m) => m, Err(_) => return None };
                let mut fs = BTreeMap::new();
                fs.insert(f, m);
                let mut man = Fm { fs };
                let p = beff_core::extract(&mut man, EntryPoints { parser_entry_point: BffFileName::new("entry.ts".into()),
                    settings: BeffUserSettings { string_formats: BTreeSet::new(), number_formats: BTreeSet::new() } });
                if !p.errors.is_empty() { return None; }
                let out = p.debug_print();
                if out.contains("type X = 1;") { Some(true) } else if out.contains("type X = 2;") { Some(false) } else { None }
            })
        }) { Ok(x) => Ok(x), Err(_) => Err("the compiler PANICS".to_string()) };
        let bad = match answer {
            Ok(None) => { skipped += 1; None }
            Ok(Some(r)) => if r != spec { Some(format!("the conditional type takes the branch {}", if r { 1 } else { 2 })) } else { None },
            Err(e) => Some(e),
        };
        if let Some(obs) = bad {
            failed.push(cases);
            if std::env::var("TWIN_ALL").is_ok() { eprintln!("FAIL case {} | {} extends {} | {} | {} | expected {}", cases, shape_ts(&shapes[a]), shape_ts(&shapes[b]), shape_ts(&shapes[c]), obs, if spec { 1 } else { 2 }); }
            if first.is_none() { first = Some(format!("{{\"case\":{},\"input\":{:?},\"observed\":{:?},\"required\":{:?}}}", cases, src, obs, format!("branch {} (brute force over all lists of length <= 4)", if spec { 1 } else { 2 }))); }
        }
    } } }
    if skipped > 0 { eprintln!("condlist: {} questions answered with a diagnostic (skipped)", skipped); }
    println!("{{\"family\":\"condlist\",\"fn\":\"extract\",\"cases\":{},\"universe\":{},\"failures\":{},\"failed_cases\":{:?},\"first\":{}}}", evaluated, cases, failed.len(), failed, first.unwrap_or("null".into()));
}

// family `condobj` (C05, bounded, source level): `type X = A extends B | C ? 1 : 2` for object types with the
// properties a, b each absent / required / optional of string or number and an optional index signature
// `[k: string]: string | number-typed` (TypeScript-valid shapes only: declared properties conform to the signature),
// against brute force over the 27 objects with the keys a, b, c (each absent, a string or a number): exact reading on
// the left (declared properties only, further keys only under an index signature), structural on the right.
fn condobj_family(only: Option<u64>, thin: u64) {
    #[derive(Clone, Copy, Debug, PartialEq)]
    enum F { Absent, Req(u8), Opt(u8) }   // 0 = string, 1 = number
    #[derive(Clone, Debug)]
    struct O { a: F, b: F, idx: Option<u8> }
    let mut fields = vec![F::Absent];
    for t in [0u8, 1u8] { fields.push(F::Req(t)); fields.push(F::Opt(t)); }
    let mut objs: Vec<O> = vec![];
    for a in &fields { for b in &fields { for idx in [None, Some(0u8), Some(1u8)] {
        let ok = match idx { None => true, Some(t) => [*a, *b].iter().all(|f| match f { F::Absent => true, F::Req(x) | F::Opt(x) => *x == t }) };
        if ok { objs.push(O { a: *a, b: *b, idx }); }
    } } }
    let tn = |t: u8| if t == 0 { "string" } else { "number" };
    let obj_ts = |o: &O| -> String {
        let mut parts: Vec<String> = vec![];
        for (k, f) in [("a", o.a), ("b", o.b)] { match f { F::Absent => {} F::Req(t) => parts.push(format!("{}: {}", k, tn(t))), F::Opt(t) => parts.push(format!("{}?: {}", k, tn(t))) } }
        if let Some(t) = o.idx { parts.push(format!("[k: string]: {}", tn(t))); }
        format!("{{ {} }}", parts.join(", "))
    };
    let vopts: [Option<u8>; 3] = [None, Some(0), Some(1)];
    let mut values: Vec<[Option<u8>; 3]> = vec![];
    for x in vopts { for y in vopts { for z in vopts { values.push([x, y, z]); } } }
    let field_ok = |f: F, v: Option<u8>, idx: Option<u8>, exact: bool| -> bool {
        match f {
            F::Req(t) => v == Some(t),
            F::Opt(t) => v.is_none() || v == Some(t),
            F::Absent => match idx { Some(t) => v.is_none() || v == Some(t), None => if exact { v.is_none() } else { true } },
        }
    };
    let is_val = |o: &O, v: &[Option<u8>; 3], exact: bool| field_ok(o.a, v[0], o.idx, exact) && field_ok(o.b, v[1], o.idx, exact) && field_ok(F::Absent, v[2], o.idx, exact);
    let n = objs.len();
    let (mut cases, mut skipped, mut evaluated) = (0u64, 0u64, 0u64);
    let mut failed: Vec<u64> = vec![];
    let mut first: Option<String> = None;
    std::panic::set_hook(Box::new(|_| {}));
    for a in 0..n { for b in 0..n { for c in 0..n {
        cases += 1;
        if let Some(o) = only { if o != cases { continue; } } else if cases % thin != 0 { continue; }
        evaluated += 1;
        let spec = values.iter().all(|v| !is_val(&objs[a], v, true) || is_val(&objs[b], v, false) || is_val(&objs[c], v, false));
        let src = format!("type A = {};\ntype B = {};\ntype C = {};\ntype X = A extends B | C ? 1 : 2;\nparse.buildParsers<{{ X: X }}>();\n", obj_ts(&objs[a]), obj_ts(&objs[b]), obj_ts(&objs[c]));
        let answer: Result<Option<bool>, String> = match std::panic::catch_unwind(|| {
            GLOBALS.set(&Globals::new(), || {
                let f = BffFileName::new("entry.ts".into());
                let m = match parse_and_bind(&mut Res {}, &f, &src) { Ok(m) => m, Err(_) => return None };
                let mut fs = BTreeMap::new();
                fs.insert(f, m);
                let mut man = Fm { fs };
                let p = beff_core::extract(&mut man, EntryPoints { parser_entry_point: BffFileName::new("entry.ts".into()),
                    settings: BeffUserSettings { string_formats: BTreeSet::new(), number_formats: BTreeSet::new() } });
                if !p.errors.is_empty() { return None; }
                let out = p.debug_print();
                if out.contains("type X = 1;") { Some(true) } else if out.contains("type X = 2;") { Some(false) } else { None }
            })
        }) { Ok(x) => Ok(x), Err(_) => Err("the compiler PANICS".to_string()) };
        let bad = match answer {
            Ok(None) => { skipped += 1; None }
            Ok(Some(r)) => if r != spec { Some(format!("the conditional type takes the branch {}", if r { 1 } else { 2 })) } else { None },
            Err(e) => Some(e),
        };
        if let Some(obs) = bad {
            failed.push(cases);
            if std::env::var("TWIN_ALL").is_ok() { eprintln!("FAIL case {} | {} extends {} | {} | {} | expected {}", cases, obj_ts(&objs[a]), obj_ts(&objs[b]), obj_ts(&objs[c]), obs, if spec { 1 } else { 2 }); }
            if first.is_none() { first = Some(format!("{{\"case\":{},\"input\":{:?},\"observed\":{:?},\"required\":{:?}}}", cases, src, obs, format!("branch {} (brute force over the 27 objects with keys a, b, c)", if spec { 1 } else { 2 }))); }
        }
    } } }
    if skipped > 0 { eprintln!("condobj: {} questions answered with a diagnostic (skipped)", skipped); }
    println!("{{\"family\":\"condobj\",\"fn\":\"extract\",\"cases\":{},\"universe\":{},\"failures\":{},\"failed_cases\":{:?},\"first\":{}}}", evaluated, cases, failed.len(), failed, first.unwrap_or("null".into()));
}

// family `exclude` (C07, bounded, source level): `type X = Exclude<A, B>` for A, B from a small type language (literals,
// basic types, tuples, objects, unions, two named recursive types). The type handed to code generation for X is read
// with an independent evaluator of Runtype (structural objects) on a universe of finite values and must lie between
// the set difference and A:   (v in A and v not in B)  =>  v in X   and   v in X  =>  v in A.
// (TypeScript's distributive Exclude and beff's semantic difference with its Not<> members dropped both lie in between.)
fn rt_eval(r: &beff_core::ast::runtype::Runtype, v: &CV, vals: &[beff_core::NamedSchema], fuel: usize) -> Option<bool> {
    use beff_core::ast::runtype::{Optionality, RuntypeConst, RuntypeKind};
    if fuel == 0 { return None; }
    Some(match &r.kind {
        RuntypeKind::Null => *v == CV::Null,
        RuntypeKind::String => matches!(v, CV::Str(_)),
        RuntypeKind::Number => matches!(v, CV::Num(_)),
        RuntypeKind::Undefined | RuntypeKind::Void => *v == CV::Undef,
        RuntypeKind::Boolean | RuntypeKind::Function | RuntypeKind::Date | RuntypeKind::BigInt => false,
        RuntypeKind::Any => true,
        RuntypeKind::Never => false,
        RuntypeKind::AnyArrayLike => matches!(v, CV::List(_)),
        RuntypeKind::Const(RuntypeConst::Number(n)) => match v { CV::Num(i) => n.to_f64() == *i as f64, _ => false },
        RuntypeKind::Const(RuntypeConst::Bool(_)) => false,
        RuntypeKind::TplLitType(_) => match (r.extract_single_string_const(), v) { (Some(s), CV::Str(x)) => s == *x, (None, _) => return None, _ => false },
        RuntypeKind::AnyOf(vs) => { for it in vs { if rt_eval(it, v, vals, fuel - 1)? { return Some(true); } } false }
        RuntypeKind::AllOf(vs) => { for it in vs { if !rt_eval(it, v, vals, fuel - 1)? { return Some(false); } } true }
        RuntypeKind::StNot(it) => !rt_eval(it, v, vals, fuel - 1)?,
        RuntypeKind::Ref(n) => rt_eval(&vals.iter().find(|s| s.name == *n)?.schema, v, vals, fuel - 1)?,
        RuntypeKind::Array(it) => match v { CV::List(xs) => { for x in xs { if !rt_eval(it, x, vals, fuel - 1)? { return Some(false); } } true } _ => false },
        RuntypeKind::Tuple { prefix_items, items } => match v {
            CV::List(xs) => {
                if xs.len() < prefix_items.len() || (xs.len() > prefix_items.len() && items.is_none()) { return Some(false); }
                for (i, x) in xs.iter().enumerate() {
                    let t = if i < prefix_items.len() { &prefix_items[i] } else { items.as_ref().unwrap() };
                    if !rt_eval(t, x, vals, fuel - 1)? { return Some(false); }
                }
                true
            }
            _ => false,
        },
        RuntypeKind::Object { vs, indexed_properties } => match v {
            CV::Obj(kv) => {
                for (k, t) in vs {
                    match (kv.iter().find(|(k2, _)| k2 == k), t) {
                        (Some((_, x)), Optionality::Required(t)) | (Some((_, x)), Optionality::Optional(t)) => { if !rt_eval(t, x, vals, fuel - 1)? { return Some(false); } }
                        (None, Optionality::Required(_)) => return Some(false),
                        (None, Optionality::Optional(_)) => {}
                    }
                }
                if let Some(ip) = indexed_properties {
                    for (k, x) in kv {
                        if vs.contains_key(*k) { continue; }
                        // only string-keyed signatures occur here
                        if !matches!(ip.key.kind, RuntypeKind::String) { return None; }
                        if !rt_eval(ip.value.inner(), x, vals, fuel - 1)? { return Some(false); }
                    }
                }
                true
            }
            _ => false,
        },
        _ => return None,
    })
}
fn exclude_family(only: Option<u64>, thin: u64) {
    let b = |t: CT| Box::new(t);
    let defs: Vec<(&'static str, CT)> = vec![
        ("T", CT::Tup(vec![CT::Num], Some(b(CT::Ref("T"))))),
        ("L", CT::Obj(vec![("v", CT::Num), ("next", CT::Or(vec![CT::Null, CT::Ref("L")]))])),
    ];
    // literal types are written as one-element "unions" of a value: reuse CT with dedicated Str/Num literal forms
    let lit = |s: &'static str| CT::Ref(s);   // see `extra` below: names that expand to literal type text
    let extra: Vec<(&'static str, &'static str)> = vec![("One", "1"), ("Two", "2"), ("SA", "\"a\""), ("SB", "\"b\"")];
    let atoms: Vec<CT> = vec![
        CT::Null, CT::Num, CT::Str, lit("One"), lit("Two"), lit("SA"), lit("SB"),
        CT::Tup(vec![CT::Num], None), CT::Tup(vec![CT::Num, CT::Str], None), CT::Tup(vec![CT::Num], Some(b(CT::Str))), CT::Arr(b(CT::Num)), CT::Arr(b(CT::Or(vec![CT::Num, CT::Str]))),
        CT::Obj(vec![("v", CT::Num)]), CT::Obj(vec![("v", CT::Str)]), CT::Obj(vec![("v", CT::Or(vec![CT::Num, CT::Str]))]), CT::Obj(vec![("v", CT::Num), ("next", CT::Null)]),
        CT::Ref("T"), CT::Ref("L"),
        // optional properties, with and without an explicit `undefined`
        CT::Obj(vec![("a?", CT::Str), ("b", CT::Num)]), CT::Obj(vec![("a?", CT::Or(vec![CT::Str, CT::Undef])), ("b", CT::Num)]), CT::Obj(vec![("a", CT::Or(vec![CT::Str, CT::Undef])), ("b", CT::Num)]),
    ];
    let mut types: Vec<CT> = atoms.clone();
    for (i, x) in atoms.iter().enumerate() { for y in atoms.iter().skip(i + 1) { types.push(CT::Or(vec![x.clone(), y.clone()])); } }
    // values
    let mut values = cv_values(2);
    for extra_v in [CV::Num(2), CV::Num(3), CV::Str("b"), CV::Str("c"), CV::List(vec![CV::Num(3)]), CV::Obj(vec![("v", CV::Num(3))]), CV::Obj(vec![("v", CV::Str("c"))]), CV::List(vec![CV::Num(1), CV::Str("a")]), CV::List(vec![CV::Num(1), CV::Str("a"), CV::Str("b")]), CV::List(vec![CV::Num(1), CV::Num(2)]), CV::Obj(vec![("v", CV::Str("a"))]), CV::Obj(vec![("v", CV::Num(1))]),
        CV::Obj(vec![("b", CV::Num(1))]), CV::Obj(vec![("a", CV::Undef), ("b", CV::Num(1))]), CV::Obj(vec![("a", CV::Str("a")), ("b", CV::Num(1))]), CV::Obj(vec![("a", CV::Num(1)), ("b", CV::Num(1))])] {
        if !values.contains(&extra_v) { values.push(extra_v); }
    }
    let lit_member = |n: &str, v: &CV| -> Option<bool> { match n { "One" => Some(*v == CV::Num(1)), "Two" => Some(*v == CV::Num(2)), "SA" => Some(*v == CV::Str("a")), "SB" => Some(*v == CV::Str("b")), _ => None } };
    fn mem2(t: &CT, v: &CV, defs: &[(&'static str, CT)], lit_member: &dyn Fn(&str, &CV) -> Option<bool>) -> bool {
        match t {
            CT::Ref(n) => match lit_member(n, v) { Some(r) => r, None => mem2(&defs.iter().find(|(k, _)| k == n).unwrap().1, v, defs, lit_member) },
            CT::Or(vs) => vs.iter().any(|t| mem2(t, v, defs, lit_member)),
            CT::Arr(i) => match v { CV::List(xs) => xs.iter().all(|x| mem2(i, x, defs, lit_member)), _ => false },
            CT::Tup(p, r) => match v { CV::List(xs) => xs.len() >= p.len() && (xs.len() == p.len() || r.is_some()) && xs.iter().enumerate().all(|(i, x)| if i < p.len() { mem2(&p[i], x, defs, lit_member) } else { mem2(r.as_ref().unwrap(), x, defs, lit_member) }), _ => false },
            // structural reading of object types (as the validators read them)
            CT::Obj(fs) => match v { CV::Obj(kv) => fs.iter().all(|(k, t)| { let (name, opt) = match k.strip_suffix('?') { Some(n) => (n, true), None => (*k, false) }; match kv.iter().find(|(k2, _)| *k2 == name) { Some((_, x)) => mem2(t, x, defs, lit_member) || (opt && *x == CV::Undef), None => opt } }), _ => false },
            other => ct_member(other, v, defs),
        }
    }
    let prelude: String = defs.iter().map(|(n, t)| format!("type {} = {};\n", n, ct_ts(t))).chain(extra.iter().map(|(n, t)| format!("type {} = {};\n", n, t))).collect();
    let (mut cases, mut skipped, mut evaluated) = (0u64, 0u64, 0u64);
    let mut failed: Vec<u64> = vec![];
    let mut first: Option<String> = None;
    std::panic::set_hook(Box::new(|_| {}));
    for ta in &types { for tb in &types {
        cases += 1;
        if let Some(o) = only { if o != cases { continue; } } else if cases % thin != 0 { continue; }
        evaluated += 1;
        let src = format!("{}type X = Exclude<{}, {}>;\nparse.buildParsers<{{ X: X }}>();\n", prelude, ct_ts(ta), ct_ts(tb));
        let res = std::panic::catch_unwind(|| {
            GLOBALS.set(&Globals::new(), || {
                let f = BffFileName::new("entry.ts".into());
                let m = parse_and_bind(&mut Res {}, &f, &src).ok()?;
                let mut fs = BTreeMap::new();
                fs.insert(f, m);
                let mut man = Fm { fs };
                let p = beff_core::extract(&mut man, EntryPoints { parser_entry_point: BffFileName::new("entry.ts".into()),
                    settings: BeffUserSettings { string_formats: BTreeSet::new(), number_formats: BTreeSet::new() } });
                if !p.errors.is_empty() {
                    // a diagnostic is an answer, except one that says a helper type of the result itself is not defined
                    let lost: Vec<String> = p.errors.iter().map(|e| format!("{:?}", e.message)).filter(|m| m.contains("reference not found")).collect();
                    if !lost.is_empty() { return Some(Err(lost[0].clone())); }
                    return None;
                }
                Some(Ok(p.validators))
            })
        });
        let vals = match res { Ok(Some(Ok(v))) => v,
            Ok(Some(Err(m))) => { failed.push(cases); if first.is_none() { first = Some(format!("{{\"case\":{},\"input\":{:?},\"observed\":{:?},\"required\":\"every helper type the result refers to is defined\"}}", cases, src, m)); } continue; }
            Ok(None) => { skipped += 1; continue; } Err(_) => { failed.push(cases); if first.is_none() { first = Some(format!("{{\"case\":{},\"input\":{:?},\"observed\":\"the compiler PANICS\",\"required\":\"a type\"}}", cases, src)); } continue; } };
        let Some(x) = vals.iter().find(|s| match &s.name.ty { beff_core::RuntypeName::Address(a) => a.name == "X", _ => false }) else { skipped += 1; continue };
        let mut bad: Option<String> = None;
        for v in &values {
            let in_a = mem2(ta, v, &defs, &lit_member);
            let in_b = mem2(tb, v, &defs, &lit_member);
            let Some(in_x) = rt_eval(&x.schema, v, &vals, 64) else { continue };
            if in_a && !in_b && !in_x { bad = Some(format!("the value {} is in the first type and not in the second, but not in the result", cv_ts(v))); break; }
            if in_x && !in_a { bad = Some(format!("the value {} is in the result but not in the first type", cv_ts(v))); break; }
        }
        // exact when no Not<> is needed: every top-level member of the first type is, on the value universe, either
        // contained in the second type or disjoint from it - then the result is exactly the union of the disjoint members
        if bad.is_none() {
            let members: Vec<CT> = match ta { CT::Or(vs) => vs.clone(), other => vec![other.clone()] };
            let mut kept: Vec<&CT> = vec![];
            let mut clean = true;
            for m in &members {
                let inside: Vec<&CV> = values.iter().filter(|v| mem2(m, v, &defs, &lit_member)).collect();
                if inside.is_empty() { clean = false; break; }
                let all_in_b = inside.iter().all(|v| mem2(tb, v, &defs, &lit_member));
                let none_in_b = inside.iter().all(|v| !mem2(tb, v, &defs, &lit_member));
                if none_in_b { kept.push(m); } else if !all_in_b { clean = false; break; }
            }
            if clean {
                for v in &values {
                    let expect = kept.iter().any(|m| mem2(m, v, &defs, &lit_member));
                    let Some(in_x) = rt_eval(&x.schema, v, &vals, 64) else { continue };
                    if in_x != expect { bad = Some(format!("every member of the first type is either inside or outside the second; the value {} {} in the remaining members but {} in the result", cv_ts(v), if expect { "is" } else { "is not" }, if in_x { "is" } else { "is not" })); break; }
                }
            }
        }
        if let Some(obs) = bad {
            failed.push(cases);
            if std::env::var("TWIN_ALL").is_ok() { eprintln!("FAIL case {} | Exclude<{}, {}> | {}", cases, ct_ts(ta), ct_ts(tb), obs); }
            if first.is_none() { first = Some(format!("{{\"case\":{},\"input\":{:?},\"observed\":{:?},\"required\":{:?}}}", cases, src, obs, "difference <= result <= first type, on the value universe")); }
        }
    } }
    if skipped > 0 { eprintln!("exclude: {} programs answered with a diagnostic or without a definition of X (skipped)", skipped); }
    println!("{{\"family\":\"exclude\",\"fn\":\"extract\",\"cases\":{},\"universe\":{},\"failures\":{},\"failed_cases\":{:?},\"first\":{}}}", evaluated, cases, failed.len(), failed, first.unwrap_or("null".into()));
}

// C07 at source level: indexed access `T[K]` on object and tuple types through the real frontend; the type handed to code
// generation for the result is read with the independent evaluator `rt_eval` and compared, value by value, with the
// union of the types TypeScript selects (a declared property, else the index signature; a prefix position, else the
// rest type). Programs TypeScript rejects (a key that selects nothing) are not asked.
fn idx_family(only: Option<u64>) {
    let b = |t: CT| Box::new(t);
    let defs: Vec<(&'static str, CT)> = vec![];
    let mut values = cv_values(1);
    for extra_v in [CV::Num(2), CV::Str("b")] { if !values.contains(&extra_v) { values.push(extra_v); } }
    // (type text, key text, expected type)
    let mut qs: Vec<(String, String, CT)> = vec![];
    let names = ["a", "b", "c"];
    let decl = |k: &str| if k == "a" { CT::Str } else { CT::Num };
    let sig_ty = CT::Or(vec![CT::Str, CT::Num, CT::Null]);
    for dm in 0..4u8 { for with_sig in [false, true] {
        let declared: Vec<&'static str> = (0..2).filter(|i| (dm >> i) & 1 == 1).map(|i| names[i]).collect();
        if declared.is_empty() && !with_sig { continue; }
        let mut parts: Vec<String> = declared.iter().map(|k| format!("{}: {}", k, ct_ts(&decl(k)))).collect();
        if with_sig { parts.push(format!("[k: string]: {}", ct_ts(&sig_ty))); }
        let tt = format!("{{ {} }}", parts.join(", "));
        for km in 1..8u8 {
            let ks: Vec<&'static str> = (0..3).filter(|i| (km >> i) & 1 == 1).map(|i| names[i]).collect();
            if !with_sig && ks.iter().any(|k| !declared.contains(k)) { continue; }
            let mut sel: Vec<CT> = vec![];
            for k in &ks { if declared.contains(k) { sel.push(decl(k)); } else { sel.push(sig_ty.clone()); } }
            qs.push((tt.clone(), ks.iter().map(|k| format!("\"{}\"", k)).collect::<Vec<_>>().join(" | "), CT::Or(sel)));
        }
        if with_sig {
            let mut sel: Vec<CT> = declared.iter().map(|k| decl(k)).collect();
            sel.push(sig_ty.clone());
            qs.push((tt.clone(), "string".into(), CT::Or(sel)));
        }
    } }
    qs.push(("Record<string, number>".into(), "\"a\"".into(), CT::Num));
    qs.push(("Record<string, number>".into(), "\"a\" | \"b\"".into(), CT::Num));
    qs.push(("Record<string, number>".into(), "string".into(), CT::Num));
    qs.push(("Record<\"a\" | \"b\", number>".into(), "\"a\"".into(), CT::Num));
    let prefixes: Vec<Vec<CT>> = vec![vec![], vec![CT::Str], vec![CT::Str, CT::Num], vec![CT::Num, CT::Null]];
    for pre in &prefixes { for rest in [None, Some(CT::Num), Some(CT::Str)] {
        if pre.is_empty() && rest.is_none() { continue; }
        let tt = ct_ts(&CT::Tup(pre.clone(), rest.clone().map(b)));
        for km in 1..8u8 {
            let ks: Vec<usize> = (0..3).filter(|i| (km >> i) & 1 == 1).collect();
            if rest.is_none() && ks.iter().any(|k| *k >= pre.len()) { continue; }
            let sel: Vec<CT> = ks.iter().map(|k| if *k < pre.len() { pre[*k].clone() } else { rest.clone().unwrap() }).collect();
            qs.push((tt.clone(), ks.iter().map(|k| format!("{}", k)).collect::<Vec<_>>().join(" | "), CT::Or(sel)));
        }
        let mut sel: Vec<CT> = pre.clone();
        if let Some(r) = &rest { sel.push(r.clone()); }
        qs.push((tt.clone(), "number".into(), CT::Or(sel)));
    } }
    let (mut cases, mut skipped) = (0u64, 0u64);
    let mut failed: Vec<u64> = vec![];
    let mut first: Option<String> = None;
    std::panic::set_hook(Box::new(|_| {}));
    for (tt, key, expect) in &qs {
        cases += 1;
        if let Some(o) = only { if o != cases { continue; } }
        let src = format!("type T = {};\ntype X = T[{}];\nparse.buildParsers<{{ X: X }}>();\n", tt, key);
        let res = std::panic::catch_unwind(|| {
            GLOBALS.set(&Globals::new(), || {
                let f = BffFileName::new("entry.ts".into());
                let m = parse_and_bind(&mut Res {}, &f, &src).ok()?;
                let mut fs = BTreeMap::new();
                fs.insert(f, m);
                let mut man = Fm { fs };
                let p = beff_core::extract(&mut man, EntryPoints { parser_entry_point: BffFileName::new("entry.ts".into()),
                    settings: BeffUserSettings { string_formats: BTreeSet::new(), number_formats: BTreeSet::new() } });
                if !p.errors.is_empty() { return None; }
                Some(p.validators)
            })
        });
        let vals = match res { Ok(Some(v)) => v, Ok(None) => { skipped += 1; continue; } Err(_) => { failed.push(cases); if first.is_none() { first = Some(format!("{{\"case\":{},\"input\":{:?},\"observed\":\"the compiler PANICS\",\"required\":\"a type\"}}", cases, src)); } continue; } };
        let Some(x) = vals.iter().find(|s| match &s.name.ty { beff_core::RuntypeName::Address(a) => a.name == "X", _ => false }) else { skipped += 1; continue };
        let mut bad: Option<String> = None;
        for v in &values {
            let want = ct_member(expect, v, &defs);
            let Some(got) = rt_eval(&x.schema, v, &vals, 64) else { continue };
            if want != got { bad = Some(format!("the value {} {} in the selected member types but {} in the type handed to code generation", cv_ts(v), if want { "is" } else { "is not" }, if got { "is" } else { "is not" })); break; }
        }
        if let Some(obs) = bad {
            failed.push(cases);
            if std::env::var("TWIN_ALL").is_ok() { eprintln!("FAIL case {} | ({})[{}] | {}", cases, tt, key, obs); }
            if first.is_none() { first = Some(format!("{{\"case\":{},\"input\":{:?},\"observed\":{:?},\"required\":{:?}}}", cases, src, obs, format!("exactly the values of {}", ct_ts(expect)))); }
        }
    }
    if skipped > 0 { eprintln!("idx: {} programs answered with a diagnostic or without a definition of X (skipped)", skipped); }
    println!("{{\"family\":\"idx\",\"fn\":\"extract\",\"cases\":{},\"failures\":{},\"failed_cases\":{:?},\"first\":{}}}", cases, failed.len(), failed, first.unwrap_or("null".into()));
}

fn main() {
    let args: Vec<String> = std::env::args().collect();
    let mut depth = 1usize;
    let mut only: Option<u64> = None;
    let mut timeout_s = 20u64;
    let mut from = 1u64;
    let mut offset = 0usize;
    let mut is_child = false;
    let mut cond = false;
    let mut condlist: Option<u64> = None;
    let mut condobj: Option<u64> = None;
    let mut exclude: Option<u64> = None;
    let mut idx = false;
    let mut i = 1;
    while i < args.len() {
        match args[i].as_str() {
            "--depth" => { depth = args[i + 1].parse().unwrap(); i += 2; }
            "--case" => { only = args[i + 1].parse().ok(); i += 2; }
            "--timeout" => { timeout_s = args[i + 1].parse().unwrap(); i += 2; }
            "--from" => { from = args[i + 1].parse().unwrap(); i += 2; }
            "--offset" => { offset = args[i + 1].parse().unwrap(); i += 2; }
            "--child" => { is_child = true; i += 1; }
            "--cond" => { cond = true; i += 1; }
            "--condlist" => { condlist = Some(args[i + 1].parse().unwrap()); i += 2; }
            "--condobj" => { condobj = Some(args[i + 1].parse().unwrap()); i += 2; }
            "--exclude" => { exclude = Some(args[i + 1].parse().unwrap()); i += 2; }
            "--idx" => { idx = true; i += 1; }
            _ => i += 1,
        }
    }
    if cond { cond_family(only); return; }
    if idx { idx_family(only); return; }
    if let Some(thin) = condlist { condlist_family(only, thin); return; }
    if let Some(thin) = condobj { condobj_family(only, thin); return; }
    if let Some(thin) = exclude { exclude_family(only, thin); return; }
    if is_child { child(depth, offset, from, only, timeout_s); return; }
    let exe = std::env::current_exe().expect("exe");
    let total = if std::env::var("FRONT_SRC").is_ok() { 1 } else { programs(depth, offset).len() as u64 };
    let (mut n_code, mut n_diag, mut n_parse) = (0u64, 0u64, 0u64);
    let mut failed: Vec<u64> = vec![];
    let mut first: Option<String> = None;
    let mut next = 1u64;
    let progs = if std::env::var("FRONT_SRC").is_ok() { vec![] } else { programs(depth, offset) };
    while next <= total {
        let mut cmd = std::process::Command::new(&exe);
        cmd.arg("--child").arg("--depth").arg(depth.to_string()).arg("--offset").arg(offset.to_string()).arg("--from").arg(next.to_string()).arg("--timeout").arg(timeout_s.to_string());
        if let Some(c) = only { cmd.arg("--case").arg(c.to_string()); }
        let out = cmd.stderr(std::process::Stdio::null()).output().expect("child runs");
        let text = String::from_utf8_lossy(&out.stdout).to_string();
        let mut last_started = 0u64;
        let mut part = (0u64, 0u64, 0u64);
        let mut done = false;
        let mut resume: Option<u64> = None;
        for l in text.lines() {
            if let Some(r) = l.strip_prefix("S ") {
                let v: Vec<u64> = r.split_whitespace().filter_map(|x| x.parse().ok()).collect();
                if v.len() == 4 { last_started = v[0]; part = (v[1], v[2], v[3]); }
            }
            else if let Some(r) = l.strip_prefix("F ") {
                let case: u64 = r.split("\"case\":").nth(1).and_then(|x| x.split(',').next()).and_then(|x| x.parse().ok()).unwrap_or(0);
                if !failed.contains(&case) { failed.push(case); }
                if std::env::var("TWIN_ALL").is_ok() { eprintln!("FAIL {}", &r[..r.len().min(400)]); }
                if first.is_none() { first = Some(r.to_string()); }
            } else if l.starts_with("E ") || l.starts_with("R ") {
                let v: Vec<u64> = l[2..].split_whitespace().filter_map(|x| x.parse().ok()).collect();
                if v.len() == 4 { n_code += v[0]; n_diag += v[1]; n_parse += v[2]; }
                if l.starts_with("E ") { done = true; } else { resume = Some(v[3]); }
            }
        }
        if done { break; }
        if let Some(r) = resume { next = r; continue; }
        // the child died without a summary: the case it had started crashed the process
        n_code += part.0; n_diag += part.1; n_parse += part.2;
        let why = format!("the compiler CRASHES the process ({}; a stack overflow from unbounded recursion aborts and cannot be caught)", out.status);
        if last_started == 0 { eprintln!("front: child died before the first case: {}", out.status); std::process::exit(3); }
        if !failed.contains(&last_started) { failed.push(last_started); }
        let (descr, files) = if progs.is_empty() { ("FRONT_SRC".to_string(), vec![]) } else { progs[(last_started - 1) as usize].clone() };
        if std::env::var("TWIN_ALL").is_ok() { eprintln!("FAIL case {} | {} | {}", last_started, descr, why); }
        if first.is_none() { first = Some(fail_json(last_started, &descr, &files, &why)); }
        if only.is_some() { break; }
        next = last_started + 1;
        // a defect that crashes thousands of programs is decided long before all of them have been tried (each crash costs a
        // process restart): stop after 150 failing programs; the count reported is then a lower bound
        if failed.len() >= 150 && std::env::var("TWIN_ALL").is_err() { eprintln!("front: stopping after {} failing programs (case {} of {})", failed.len(), last_started, total); break; }
    }
    failed.sort();
    println!("{{\"family\":\"front\",\"fn\":\"extract\",\"cases\":{},\"failures\":{},\"failed_cases\":{:?},\"first\":{},\"code\":{},\"diagnostics\":{},\"parse_errors\":{},\"depth\":{}}}",
        total, failed.len(), failed, first.unwrap_or("null".into()), n_code, n_diag, n_parse, depth);
}
