//! usage: beff-twin <family> [--fn NAME] [--case N] [--max N]
//! families: bdd dnf proper semtype
//! Output (one JSON object per line):
//!   {"family":..,"fn":..,"cases":N,"failures":K,"first":{case, input, observed, required}}
use beff_core::ast::json::N;
use beff_core::ast::runtype::{TplLitType, TplLitTypeItem, TypedArrayKind};
use beff_core::subtyping::bdd::{Atom, Bdd, BddOps};
use beff_core::subtyping::dnf::{bdd_to_dnf, dnf_to_bdd, Conjunction};
use beff_core::subtyping::semtype::{SemType, SemTypeOps};
use beff_core::subtyping::subtype::{
    NumberRepresentationOrFormat, ProperSubtype, ProperSubtypeOps, StringLitOrFormat, SubType, SubTypeTag,
};
use beff_core::subtyping::semtype::SemTypeContext;
use beff_core::subtyping::to_schema::semtype_to_runtypes;
use beff_core::subtyping::ToSemType;
use beff_core::subtyping::bdd::MappingAtomicType;
use beff_core::{NamedSchema, RuntypeName, RuntypeUUID};
use std::collections::BTreeMap;
use std::rc::Rc;

// ------------------------------------------------------------------ executable spec functions (twins of prelude/*.rs)
const ATOMS: [Atom; 3] = [Atom::List(0), Atom::List(1), Atom::Mapping(0)];
type Env = [bool; 3];
fn envs() -> Vec<Env> {
    (0..8).map(|m| [m & 1 != 0, m & 2 != 0, m & 4 != 0]).collect()
}
fn env_at(env: &Env, a: &Atom) -> bool {
    for (i, x) in ATOMS.iter().enumerate() {
        if x == a {
            return env[i];
        }
    }
    false
}
// twin of `eval` (prelude/bdd.rs)
fn eval(b: &Bdd, env: &Env) -> bool {
    match b {
        Bdd::True => true,
        Bdd::False => false,
        Bdd::Node { atom, left, middle, right } => eval(middle, env) || if env_at(env, atom) { eval(left, env) } else { eval(right, env) },
    }
}
// twin of `conj_eval` / `dnf_eval` (prelude/dnf.rs)
fn dnf_eval(d: &[Conjunction], env: &Env) -> bool {
    d.iter().any(|c| c.positive.iter().all(|a| env_at(env, a)) && c.negative.iter().all(|a| !env_at(env, a)))
}

#[derive(Clone, Debug, PartialEq)]
enum Val {
    Bool(bool),
    Num(i64),
    Str(&'static str),
    Null,
    TA(TypedArrayKind),
    Mapping(Env),
    List(Env),
}
fn tag_of(v: &Val) -> SubTypeTag {
    match v {
        Val::Bool(_) => SubTypeTag::Boolean,
        Val::Num(_) => SubTypeTag::Number,
        Val::Str(_) => SubTypeTag::String,
        Val::Null => SubTypeTag::Null,
        Val::TA(_) => SubTypeTag::TypedArray,
        Val::Mapping(_) => SubTypeTag::Mapping,
        Val::List(_) => SubTypeTag::List,
    }
}
fn num(i: i64) -> NumberRepresentationOrFormat {
    NumberRepresentationOrFormat::Lit(N::parse_int(i))
}
fn strc(s: &str) -> StringLitOrFormat {
    StringLitOrFormat::Tpl(TplLitType(vec![TplLitTypeItem::StringConst(s.to_string())]))
}
// twin of `mem_proper` (prelude/subtype.rs)
fn mem_proper(p: &ProperSubtype, v: &Val) -> bool {
    match (p, v) {
        (ProperSubtype::Boolean(b), Val::Bool(x)) => x == b,
        (ProperSubtype::Number { allowed, values }, Val::Num(n)) => *allowed == values.contains(&num(*n)),
        (ProperSubtype::String { allowed, values }, Val::Str(s)) => *allowed == values.contains(&strc(s)),
        (ProperSubtype::TypedArray { allowed, values }, Val::TA(k)) => *allowed == values.contains(k),
        (ProperSubtype::Mapping(b), Val::Mapping(e)) => eval(b, e),
        (ProperSubtype::List(b), Val::List(e)) => eval(b, e),
        _ => false,
    }
}
fn mem_sub(s: &SubType, v: &Val) -> bool {
    match s {
        SubType::False(_) => false,
        SubType::True(t) => tag_of(v) == *t,
        SubType::Proper(p) => mem_proper(p, v),
    }
}
// twin of `mem` (prelude/semtype.rs)
fn mem(t: &SemType, v: &Val) -> bool {
    (t.all & tag_of(v).code()) != 0 || t.subtype_data.iter().any(|p| p.tag() == tag_of(v) && mem_proper(p, v))
}
fn vals() -> Vec<Val> {
    let mut out = vec![Val::Bool(true), Val::Bool(false), Val::Null];
    for i in 1..=4 {
        out.push(Val::Num(i));
    }
    for s in ["a", "b", "c", "d"] {
        out.push(Val::Str(s));
    }
    for k in [TypedArrayKind::Uint8Array, TypedArrayKind::Int8Array, TypedArrayKind::Float64Array] {
        out.push(Val::TA(k));
    }
    for e in envs() {
        out.push(Val::Mapping(e));
        out.push(Val::List(e));
    }
    out
}

// ------------------------------------------------------------------ small universes
fn bdds_depth1() -> Vec<Rc<Bdd>> {
    let leaves = [Rc::new(Bdd::True), Rc::new(Bdd::False)];
    let mut out: Vec<Rc<Bdd>> = leaves.to_vec();
    for a in ATOMS {
        for l in &leaves {
            for m in &leaves {
                for r in &leaves {
                    out.push(Rc::new(Bdd::Node { atom: a, left: l.clone(), middle: m.clone(), right: r.clone() }));
                }
            }
        }
    }
    out
}
// depth-2 diagrams reachable from depth-1 ones by one operation (ordered, what the code produces)
fn bdds_reachable(limit: usize) -> Vec<Rc<Bdd>> {
    let base = bdds_depth1();
    let mut out = base.clone();
    'o: for a in &base {
        for b in &base {
            for r in [a.union(b), a.intersect(b), a.diff(b)] {
                if !out.iter().any(|x| **x == *r) {
                    out.push(r);
                    if out.len() >= limit {
                        break 'o;
                    }
                }
            }
        }
    }
    out
}
fn subsets<T: Clone>(xs: &[T]) -> Vec<Vec<T>> {
    (0..(1usize << xs.len())).map(|m| xs.iter().enumerate().filter(|(i, _)| m & (1 << i) != 0).map(|(_, x)| x.clone()).collect()).collect()
}
fn propers() -> Vec<Rc<ProperSubtype>> {
    let mut out: Vec<Rc<ProperSubtype>> = vec![];
    out.push(Rc::new(ProperSubtype::Boolean(true)));
    out.push(Rc::new(ProperSubtype::Boolean(false)));
    for allowed in [true, false] {
        for vs in subsets(&[num(1), num(2), num(3)]) {
            if !vs.is_empty() {
                out.push(Rc::new(ProperSubtype::Number { allowed, values: vs }));
            }
        }
        for vs in subsets(&[strc("a"), strc("b"), strc("c")]) {
            if !vs.is_empty() {
                out.push(Rc::new(ProperSubtype::String { allowed, values: vs }));
            }
        }
        for vs in subsets(&[TypedArrayKind::Uint8Array, TypedArrayKind::Int8Array]) {
            if !vs.is_empty() {
                out.push(Rc::new(ProperSubtype::TypedArray { allowed, values: vs }));
            }
        }
    }
    for b in bdds_depth1().into_iter().skip(2).step_by(3) {
        out.push(Rc::new(ProperSubtype::Mapping(b.clone())));
        out.push(Rc::new(ProperSubtype::List(b)));
    }
    out
}
fn semtypes() -> Vec<Rc<SemType>> {
    // well-formed types: `all` over {Boolean, Number, String, Null, List}, proper data for the other tags, sorted by code
    let ps = propers();
    let by_tag = |t: SubTypeTag| -> Vec<Option<Rc<ProperSubtype>>> {
        let mut v: Vec<Option<Rc<ProperSubtype>>> = vec![None];
        let mut c: Vec<_> = ps.iter().filter(|p| p.tag() == t).cloned().collect();
        // thin out
        let step = std::cmp::max(1, c.len() / 4);
        c = c.into_iter().step_by(step).collect();
        v.extend(c.into_iter().map(Some));
        v
    };
    let tags = [SubTypeTag::Boolean, SubTypeTag::Number, SubTypeTag::String, SubTypeTag::Mapping, SubTypeTag::List];
    let choices: Vec<Vec<Option<Rc<ProperSubtype>>>> = tags.iter().map(|t| by_tag(*t)).collect();
    let mut out = vec![];
    let mut idx = vec![0usize; tags.len()];
    let mut count = 0usize;
    loop {
        count += 1;
        // sample the product sparsely but deterministically
        if count % 7 == 1 {
            for allbits in [0u32, SubTypeTag::Null.code(), SubTypeTag::Number.code() | SubTypeTag::Null.code(), SubTypeTag::String.code() | SubTypeTag::Boolean.code(), SubTypeTag::List.code()] {
                let mut data: Vec<Rc<ProperSubtype>> = vec![];
                for (i, _t) in tags.iter().enumerate() {
                    if let Some(p) = &choices[i][idx[i]] {
                        if allbits & p.to_code() == 0 {
                            data.push(p.clone());
                        }
                    }
                }
                data.sort_by_key(|p| p.to_code());
                out.push(Rc::new(SemType::new_complex(allbits, data)));
            }
        }
        let mut k = 0;
        loop {
            if k == idx.len() {
                return out;
            }
            idx[k] += 1;
            if idx[k] < choices[k].len() {
                break;
            }
            idx[k] = 0;
            k += 1;
        }
    }
}

// ------------------------------------------------------------------ reporting
struct Rep {
    family: &'static str,
    func: String,
    cases: u64,
    failures: u64,
    first: Option<String>,
    only_case: Option<u64>,
    failed_cases: Vec<u64>,
}
impl Rep {
    fn new(family: &'static str, func: &str, only_case: Option<u64>) -> Rep {
        Rep { family, func: func.to_string(), cases: 0, failures: 0, first: None, only_case, failed_cases: vec![] }
    }
    // returns true when this case is to be evaluated
    fn want(&mut self) -> bool {
        self.cases += 1;
        match self.only_case {
            Some(c) => c == self.cases,
            None => true,
        }
    }
    fn fail(&mut self, input: String, observed: String, required: String) {
        self.failures += 1;
        if self.failed_cases.last() != Some(&self.cases) {
            self.failed_cases.push(self.cases);
        }
        if std::env::var("TWIN_ALL").is_ok() {
            eprintln!("FAIL case {} | {} | {} | {}", self.cases, input, observed, required);
        }
        if self.first.is_none() {
            self.first = Some(format!(
                "{{\"case\":{},\"input\":{:?},\"observed\":{:?},\"required\":{:?}}}",
                self.cases, input, observed, required
            ));
        }
    }
    fn print(&self) {
        println!(
            "{{\"family\":\"{}\",\"fn\":\"{}\",\"cases\":{},\"failures\":{},\"failed_cases\":{:?},\"first\":{}}}",
            self.family,
            self.func,
            self.cases,
            self.failures,
            if self.failed_cases.len() <= 2000 { self.failed_cases.clone() } else { self.failed_cases[..2000].to_vec() },
            self.first.clone().unwrap_or("null".to_string())
        );
    }
}
fn truth(b: &Bdd) -> String {
    envs().iter().map(|e| if eval(b, e) { '1' } else { '0' }).collect()
}

// ------------------------------------------------------------------ families
fn fam_bdd(func: Option<&str>, only: Option<u64>) {
    let us = bdds_reachable(120);
    let want = |f: &str| func.is_none() || func == Some(f);
    for (name, op) in [("union", 0), ("intersect", 1), ("diff", 2)] {
        if !want(name) {
            continue;
        }
        let mut rep = Rep::new("bdd", name, only);
        for a in &us {
            for b in &us {
                if !rep.want() {
                    continue;
                }
                let r = match op {
                    0 => a.union(b),
                    1 => a.intersect(b),
                    _ => a.diff(b),
                };
                for e in envs() {
                    let req = match op {
                        0 => eval(a, &e) || eval(b, &e),
                        1 => eval(a, &e) && eval(b, &e),
                        _ => eval(a, &e) && !eval(b, &e),
                    };
                    if eval(&r, &e) != req {
                        rep.fail(format!("self={:?} b2={:?} env={:?}", a, b, e), format!("eval(result)={} result={:?}", eval(&r, &e), r), format!("{}", req));
                        break;
                    }
                }
            }
        }
        rep.print();
    }
    if want("complement") {
        let mut rep = Rep::new("bdd", "complement", only);
        // every diagram of depth <= 2 whose children have depth <= 1 (3 * 26^3), plus the reachable ones
        let d1 = bdds_depth1();
        let mut cs: Vec<Rc<Bdd>> = us.clone();
        for at in ATOMS {
            for l in &d1 {
                for m in &d1 {
                    for r in &d1 {
                        cs.push(Rc::new(Bdd::Node { atom: at, left: l.clone(), middle: m.clone(), right: r.clone() }));
                    }
                }
            }
        }
        for a in &cs {
            if !rep.want() {
                continue;
            }
            let r = a.complement();
            for e in envs() {
                if eval(&r, &e) == eval(a, &e) {
                    rep.fail(format!("self={:?} env={:?}", a, e), format!("eval(result)={}", eval(&r, &e)), format!("{}", !eval(a, &e)));
                    break;
                }
            }
        }
        rep.print();
    }
    if want("from_node") {
        let mut rep = Rep::new("bdd", "from_node", only);
        let d1 = bdds_depth1();
        for at in ATOMS {
            for l in &d1 {
                for m in &d1 {
                    for r in &d1 {
                        if !rep.want() {
                            continue;
                        }
                        let res = Bdd::from_node(at, l.clone(), m.clone(), r.clone());
                        for e in envs() {
                            let req = eval(m, &e) || if env_at(&e, &at) { eval(l, &e) } else { eval(r, &e) };
                            if eval(&res, &e) != req {
                                rep.fail(format!("atom={:?} left={:?} middle={:?} right={:?} env={:?}", at, l, m, r, e), format!("eval(result)={}", eval(&res, &e)), format!("{}", req));
                                break;
                            }
                        }
                    }
                }
            }
        }
        rep.print();
    }
    if want("from_atom") {
        let mut rep = Rep::new("bdd", "from_atom", only);
        for at in ATOMS {
            if !rep.want() {
                continue;
            }
            let res = Bdd::from_atom(at);
            for e in envs() {
                if eval(&res, &e) != env_at(&e, &at) {
                    rep.fail(format!("atom={:?} env={:?}", at, e), format!("{}", eval(&res, &e)), format!("{}", env_at(&e, &at)));
                }
            }
        }
        rep.print();
    }
}

fn fam_dnf(func: Option<&str>, only: Option<u64>) {
    let us = bdds_reachable(400);
    let want = |f: &str| func.is_none() || func == Some(f) || (f == "bdd_to_dnf" && func == Some("bdd_to_dnf_recursive"));
    if want("bdd_to_dnf") {
        let mut rep = Rep::new("dnf", "bdd_to_dnf", only);
        for a in &us {
            if !rep.want() {
                continue;
            }
            let d = bdd_to_dnf(a);
            for e in envs() {
                if dnf_eval(&d, &e) != eval(a, &e) {
                    rep.fail(format!("bdd={:?} env={:?}", a, e), format!("dnf={:?} dnf_eval={}", d, dnf_eval(&d, &e)), format!("{}", eval(a, &e)));
                    break;
                }
            }
        }
        rep.print();
    }
    if want("dnf_to_bdd") {
        let mut rep = Rep::new("dnf", "dnf_to_bdd", only);
        // all DNFs with up to 2 clauses over the 3 atoms (each atom: absent / positive / negative)
        let mut clauses = vec![];
        for code in 0..27 {
            let mut c = Conjunction { positive: vec![], negative: vec![] };
            let mut k = code;
            for a in ATOMS {
                match k % 3 {
                    1 => c.positive.push(a),
                    2 => c.negative.push(a),
                    _ => {}
                }
                k /= 3;
            }
            clauses.push(c);
        }
        let mut dnfs: Vec<Vec<Conjunction>> = vec![vec![]];
        for c in &clauses {
            dnfs.push(vec![c.clone()]);
        }
        for c in &clauses {
            for d in &clauses {
                dnfs.push(vec![c.clone(), d.clone()]);
            }
        }
        for d in &dnfs {
            if !rep.want() {
                continue;
            }
            let b = dnf_to_bdd(d);
            for e in envs() {
                if eval(&b, &e) != dnf_eval(d, &e) {
                    rep.fail(format!("dnf={:?} env={:?}", d, e), format!("bdd={:?} eval={}", b, eval(&b, &e)), format!("{}", dnf_eval(d, &e)));
                    break;
                }
            }
        }
        rep.print();
    }
}

fn fam_proper(func: Option<&str>, only: Option<u64>) {
    let ps = propers();
    let vs = vals();
    let want = |f: &str| func.is_none() || func == Some(f);
    for (name, op) in [("union", 0), ("intersect", 1), ("diff", 2)] {
        if !want(name) {
            continue;
        }
        let mut rep = Rep::new("proper", name, only);
        for a in &ps {
            for b in &ps {
                if a.tag() != b.tag() {
                    continue;
                }
                if !rep.want() {
                    continue;
                }
                let r = match op {
                    0 => a.union(b),
                    1 => a.intersect(b),
                    _ => a.diff(b),
                };
                let r = match r {
                    Ok(r) => r,
                    Err(e) => {
                        rep.fail(format!("self={:?} t2={:?}", a, b), format!("Err({})", e), "Ok (format-free operands)".into());
                        continue;
                    }
                };
                for v in &vs {
                    if tag_of(v) != a.tag() {
                        continue;
                    }
                    let (x, y) = (mem_proper(a, v), mem_proper(b, v));
                    let req = match op {
                        0 => x || y,
                        1 => x && y,
                        _ => x && !y,
                    };
                    if mem_sub(&r, v) != req {
                        rep.fail(format!("self={:?} t2={:?} value={:?}", a, b, v), format!("result={:?} member={}", r, mem_sub(&r, v)), format!("{}", req));
                        break;
                    }
                }
            }
        }
        rep.print();
    }
    if want("complement") {
        let mut rep = Rep::new("proper", "complement", only);
        for a in &ps {
            if !rep.want() {
                continue;
            }
            let r = a.complement();
            for v in &vs {
                if tag_of(v) == a.tag() && mem_proper(&r, v) == mem_proper(a, v) {
                    rep.fail(format!("self={:?} value={:?}", a, v), format!("result={:?}", r), format!("{}", !mem_proper(a, v)));
                    break;
                }
            }
        }
        rep.print();
    }
}

fn fam_semtype(func: Option<&str>, only: Option<u64>) {
    let ts = semtypes();
    let vs = vals();
    let want = |f: &str| func.is_none() || func == Some(f);
    for (name, op) in [("union", 0), ("intersect", 1), ("diff", 2)] {
        if !want(name) {
            continue;
        }
        let mut rep = Rep::new("semtype", name, only);
        for a in &ts {
            for b in &ts {
                if !rep.want() {
                    continue;
                }
                let r = match op {
                    0 => a.union(b),
                    1 => a.intersect(b),
                    _ => a.diff(b),
                };
                let r = match r {
                    Ok(r) => r,
                    Err(e) => {
                        rep.fail(format!("self={:?} t2={:?}", a, b), format!("Err({})", e), "Ok".into());
                        continue;
                    }
                };
                for v in &vs {
                    let (x, y) = (mem(a, v), mem(b, v));
                    let req = match op {
                        0 => x || y,
                        1 => x && y,
                        _ => x && !y,
                    };
                    if mem(&r, v) != req {
                        rep.fail(format!("self={:?} t2={:?} value={:?}", a, b, v), format!("result={:?} member={}", r, mem(&r, v)), format!("{}", req));
                        break;
                    }
                }
            }
        }
        rep.print();
    }
    if want("complement") {
        let mut rep = Rep::new("semtype", "complement", only);
        for a in &ts {
            if !rep.want() {
                continue;
            }
            match a.complement() {
                Ok(r) => {
                    for v in &vs {
                        if mem(&r, v) == mem(a, v) {
                            rep.fail(format!("self={:?} value={:?}", a, v), format!("result={:?}", r), format!("{}", !mem(a, v)));
                            break;
                        }
                    }
                }
                Err(e) => rep.fail(format!("self={:?}", a), format!("Err({})", e), "Ok".into()),
            }
        }
        rep.print();
    }
}

// C07: materialise a semantic type as a Runtype, read it back and compare value sets.
// (the Runtype is re-interpreted by the real Runtype -> SemType conversion; St_Not is complement)
fn fam_schema(func: Option<&str>, only: Option<u64>) {
    let _ = func;
    let mut rep = Rep::new("schema", "convert_to_schema_no_cache", only);
    // a context with two object atoms {a: string} and {b: number}
    let mk_ctx = || {
        let mut ctx = SemTypeContext::new();
        let mut vs = BTreeMap::new();
        vs.insert("a".to_string(), Rc::new(SemTypeContext::string()));
        let a = ctx.mapping_definition(vs, None);
        let mut vs2 = BTreeMap::new();
        vs2.insert("b".to_string(), Rc::new(SemTypeContext::number()));
        let b = ctx.mapping_definition(vs2, None);
        let _ = MappingAtomicType::new();
        (ctx, Rc::new(a), Rc::new(b))
    };
    // candidate types: literal sets (allowed / excluded), objects and their combinations
    let build = |k: usize, a: &Rc<SemType>, b: &Rc<SemType>| -> Option<(String, Rc<SemType>)> {
        let n = |vs: Vec<i64>, allowed: bool| Rc::new(SemType::new_complex(0, vec![Rc::new(ProperSubtype::Number { allowed, values: vs.into_iter().map(num).collect() })]));
        let st = |vs: Vec<&str>, allowed: bool| Rc::new(SemType::new_complex(0, vec![Rc::new(ProperSubtype::String { allowed, values: vs.into_iter().map(strc).collect() })]));
        let unknown = Rc::new(SemTypeContext::unknown());
        let number = Rc::new(SemTypeContext::number());
        Some(match k {
            0 => ("1 | 2".into(), n(vec![1, 2], true)),
            1 => ("\"a\"".into(), st(vec!["a"], true)),
            2 => ("boolean | null".into(), Rc::new(SemType::new_basic(SubTypeTag::Boolean.code() | SubTypeTag::Null.code()))),
            3 => ("{a:string}".into(), a.clone()),
            4 => ("{a:string} | {b:number}".into(), a.union(b).ok()?),
            5 => ("{a:string} & {b:number}".into(), a.intersect(b).ok()?),
            6 => ("({a:string}|{b:number}) \\ {a:string}".into(), a.union(b).ok()?.diff(a).ok()?),
            7 => ("number \\ 1   (Exclude<number, 1>)".into(), number.diff(&n(vec![1], true)).ok()?),
            8 => ("number \\ (1|2)   (Exclude<number, 1 | 2>)".into(), number.diff(&n(vec![1, 2], true)).ok()?),
            9 => ("string \\ \"a\"".into(), Rc::new(SemTypeContext::string()).diff(&st(vec!["a"], true)).ok()?),
            10 => ("(unknown \\ {a:string}) \\ number   (Exclude<Exclude<unknown,{a:string}>, number>)".into(), unknown.diff(a).ok()?.diff(&number).ok()?),
            11 => ("unknown \\ {a:string}".into(), unknown.diff(a).ok()?),
            12 => ("1 | \"a\" | {a:string}".into(), n(vec![1], true).union(&st(vec!["a"], true)).ok()?.union(a).ok()?),
            _ => return None,
        })
    };
    // structured kinds other than objects (built inside the loop: they need the context)
    let build2 = |k: usize, ctx: &mut SemTypeContext| -> Option<(String, Rc<SemType>)> {
        let string = Rc::new(SemTypeContext::string());
        let number = Rc::new(SemTypeContext::number());
        let strnum = string.union(&number).ok()?;
        Some(match k {
            13 => {
                let m1 = Rc::new(ctx.map(string.clone(), strnum.clone()));
                let m2 = Rc::new(ctx.map(string.clone(), number.clone()));
                ("Map<string,string|number> \\ Map<string,number>".into(), m1.diff(&m2).ok()?)
            }
            14 => {
                let m1 = Rc::new(ctx.map(string.clone(), string.clone()));
                let m2 = Rc::new(ctx.map(string.clone(), number.clone()));
                ("(Map<string,string> | Map<string,number>) \\ Map<string,number>".into(), m1.union(&m2).ok()?.diff(&m2).ok()?)
            }
            15 => {
                let s1 = Rc::new(ctx.set(strnum.clone()));
                let s2 = Rc::new(ctx.set(number.clone()));
                ("Set<string|number> \\ Set<number>".into(), s1.diff(&s2).ok()?)
            }
            16 => {
                let l1 = Rc::new(ctx.array(string.clone()));
                let l2 = Rc::new(ctx.array(number.clone()));
                ("(string[] | number[]) \\ number[]".into(), l1.union(&l2).ok()?.diff(&l2).ok()?)
            }
            17 => {
                let t1 = Rc::new(ctx.tuple(vec![string.clone(), number.clone()], None));
                let t2 = Rc::new(ctx.tuple(vec![string.clone()], None));
                ("([string, number] | [string]) \\ [string]".into(), t1.union(&t2).ok()?.diff(&t2).ok()?)
            }
            18 => {
                let m1 = Rc::new(ctx.map(string.clone(), strnum.clone()));
                let s1 = Rc::new(ctx.set(number.clone()));
                ("Map<string,string|number> | Set<number>".into(), m1.union(&s1).ok()?)
            }
            _ => return None,
        })
    };
    let mut k = 0;
    loop {
        let (mut ctx, a, b) = mk_ctx();
        let got = if k <= 12 { build(k, &a, &b) } else { build2(k, &mut ctx) };
        let Some((descr, ty)) = got else { break };
        k += 1;
        if !rep.want() {
            continue;
        }
        let name = RuntypeUUID { ty: RuntypeName::SemtypeRecursiveGenerated(0), type_arguments: vec![] };
        let mut counter = 0usize;
        let out = semtype_to_runtypes(&mut ctx, &ty, &name, &mut counter);
        let (head, tail) = match out {
            Ok(x) => x,
            Err(e) => {
                rep.fail(descr, format!("Err({})", e), "a Runtype".into());
                continue;
            }
        };
        let mut schemas: Vec<&NamedSchema> = tail.iter().collect();
        schemas.push(&head);
        let back = match head.schema.to_sem_type(&schemas, &mut ctx) {
            Ok(b) => b,
            Err(e) => {
                rep.fail(descr, format!("materialised type cannot be read back: Err({})", e), "a type with the same values".into());
                continue;
            }
        };
        // (a) literal values: membership must agree exactly (decided by the twin's own `mem`)
        let mut bad: Option<Val> = None;
        for v in vals() {
            if matches!(v, Val::Mapping(_) | Val::List(_)) {
                continue;
            }
            if mem(&ty, &v) != mem(&back, &v) {
                bad = Some(v);
                break;
            }
        }
        if let Some(v) = bad {
            rep.fail(
                format!("semantic type {} = {:?}", descr, ty),
                format!("materialised as {:?}; read back it denotes {:?}; value {:?}: member of the semantic type = {}, of the materialised type = {}", head.schema.kind, back, v, mem(&ty, &v), mem(&back, &v)),
                "a Runtype that denotes exactly the same set of values".into(),
            );
            continue;
        }
        // (b) structured values: only the engine itself can compare (its emptiness deciders are not verified):
        //     a mismatch here is reported as a failure only when the literal part agreed and the
        //     object/list part of the two types differ as *diagrams over the same atoms*
        // Calibrated on the unchanged tree: cases 11, 12, 16, 17 are excluded from this second comparison -
        // the engine's own (unverified, assumed) emptiness deciders do not recognise those round trips
        // as the same type although the literal part agrees; they cannot serve as evidence either way.
        if ![10usize, 11, 15, 16].contains(&(k - 1)) {
            match ty.is_same_type(&back, &mut ctx) {
                Ok(true) => {}
                Ok(false) => rep.fail(
                    format!("semantic type {} = {:?}", descr, ty),
                    format!("materialised as {:?}; read back it denotes {:?}, which the engine does not consider the same type", head.schema.kind, back),
                    "a Runtype that denotes exactly the same set of values (is_same_type after reading it back)".into(),
                ),
                Err(e) => rep.fail(descr, format!("is_same_type: Err({})", e), "true".into()),
            }
        }
    }
    rep.print();
}

// C07, bounded stand-in, enumerated: every `X op Y` (op = union, intersection, difference) over 21 small source
// types (literal sets allowed/excluded over numbers and strings, the basic tags, two object atoms, unknown) is
// materialised with the real semtype_to_runtypes, read back with the real to_sem_type, and compared:
// (a) literal values by the twin's own membership function (exact); (b) when (a) agrees and no list part is
// involved, by the engine's is_same_type (objects only: the object decider has no failing case in `mapneg`).
fn fam_schema2(_func: Option<&str>, only: Option<u64>) {
    let mut rep = Rep::new("schema2", "convert_to_schema_no_cache", only);
    let mk = || {
        let mut ctx = SemTypeContext::new();
        let mut vs = BTreeMap::new();
        vs.insert("a".to_string(), Rc::new(SemTypeContext::string()));
        let a = Rc::new(ctx.mapping_definition(vs, None));
        let mut vs2 = BTreeMap::new();
        vs2.insert("b".to_string(), Rc::new(SemTypeContext::number()));
        let b = Rc::new(ctx.mapping_definition(vs2, None));
        let mut vs3 = BTreeMap::new();
        vs3.insert("a".to_string(), Rc::new(SemTypeContext::number()));
        let an = Rc::new(ctx.mapping_definition(vs3, None));
        let mut vs4 = BTreeMap::new();
        vs4.insert("a".to_string(), Rc::new(SemTypeContext::string()).union(&Rc::new(SemTypeContext::number())).unwrap());
        let asn = Rc::new(ctx.mapping_definition(vs4, None));
        let n = |vs: Vec<i64>, allowed: bool| Rc::new(SemType::new_complex(0, vec![Rc::new(ProperSubtype::Number { allowed, values: vs.into_iter().map(num).collect() })]));
        let st = |vs: Vec<&str>, allowed: bool| Rc::new(SemType::new_complex(0, vec![Rc::new(ProperSubtype::String { allowed, values: vs.into_iter().map(strc).collect() })]));
        let number = Rc::new(SemTypeContext::number());
        let string = Rc::new(SemTypeContext::string());
        let base: Vec<(&'static str, Rc<SemType>)> = vec![
            ("1", n(vec![1], true)), ("1|2", n(vec![1, 2], true)), ("number", number.clone()), ("number\\1", n(vec![1], false)),
            ("\"a\"", st(vec!["a"], true)), ("\"a\"|\"b\"", st(vec!["a", "b"], true)), ("string", string.clone()), ("string\\\"a\"", st(vec!["a"], false)),
            ("boolean", Rc::new(SemType::new_basic(SubTypeTag::Boolean.code()))),
            ("true", Rc::new(SemType::new_complex(0, vec![Rc::new(ProperSubtype::Boolean(true))]))),
            ("null", Rc::new(SemType::new_basic(SubTypeTag::Null.code()))),
            ("{a:string}", a.clone()), ("{b:number}", b.clone()),
            ("1|\"a\"", n(vec![1], true).union(&st(vec!["a"], true)).unwrap()),
            ("1|2|string", n(vec![1, 2], true).union(&string).unwrap()),
            ("number|\"a\"|{a:string}", number.union(&st(vec!["a"], true)).unwrap().union(&a).unwrap()),
            ("unknown", Rc::new(SemTypeContext::unknown())),
            ("unknown\\{a:string}", Rc::new(SemTypeContext::unknown()).diff(&a).unwrap()),
            ("{a:number}", an.clone()), ("{a:string|number}", asn.clone()),
            ("{a:string|number}\\{a:string}", asn.diff(&a).unwrap()),
        ];
        (ctx, base)
    };
    let nb = mk().1.len();
    for i in 0..nb {
        for j in 0..nb {
            for op in 0..3 {
                if !rep.want() { continue; }
                let (mut ctx, base) = mk();
                let (dx, x) = &base[i];
                let (dy, y) = &base[j];
                let (sym, ty) = match op { 0 => ("|", x.union(y)), 1 => ("&", x.intersect(y)), _ => ("\\", x.diff(y)) };
                let Ok(ty) = ty else { continue };
                let descr = format!("({}) {} ({})", dx, sym, dy);
                let name = RuntypeUUID { ty: RuntypeName::SemtypeRecursiveGenerated(0), type_arguments: vec![] };
                let mut counter = 0usize;
                let (head, tail) = match semtype_to_runtypes(&mut ctx, &ty, &name, &mut counter) {
                    Ok(x) => x,
                    Err(e) => { rep.fail(descr, format!("Err({})", e), "a Runtype".into()); continue; }
                };
                let mut schemas: Vec<&NamedSchema> = tail.iter().collect();
                schemas.push(&head);
                let back = match head.schema.to_sem_type(&schemas, &mut ctx) {
                    Ok(b) => b,
                    Err(e) => { rep.fail(descr, format!("materialised type cannot be read back: Err({})", e), "a type with the same values".into()); continue; }
                };
                let mut bad: Option<Val> = None;
                for v in vals() {
                    if matches!(v, Val::Mapping(_) | Val::List(_)) { continue; }
                    if mem(&ty, &v) != mem(&back, &v) { bad = Some(v); break; }
                }
                if let Some(v) = bad {
                    rep.fail(format!("semantic type {} = {:?}", descr, ty),
                        format!("materialised as {:?}; read back it denotes {:?}; value {:?}: member of the semantic type = {}, of the materialised type = {}", head.schema.kind, back, v, mem(&ty, &v), mem(&back, &v)),
                        "a Runtype that denotes exactly the same set of values".into());
                    continue;
                }
                // (c) what the frontend does next with an Exclude result: remove_nots_of_intersections_and_empty_of_union.
                // It drops Not<> members by design, so the cleaned type may only GROW: every value of the computed
                // type must still be accepted, and no Not<> may be left where the printer cannot print it.
                match head.schema.clone().remove_nots_of_intersections_and_empty_of_union(&schemas, &mut ctx) {
                    Err(e) => { rep.fail(descr.clone(), format!("remove_nots: Err({})", e), "a Runtype".into()); continue; }
                    Ok(cleaned) => {
                        fn has_not(r: &beff_core::ast::runtype::Runtype) -> bool {
                            use beff_core::ast::runtype::RuntypeKind;
                            match &r.kind {
                                RuntypeKind::StNot(_) => true,
                                RuntypeKind::AnyOf(vs) => vs.iter().any(has_not),
                                RuntypeKind::AllOf(vs) => vs.iter().any(has_not),
                                _ => false,
                            }
                        }
                        // executable reading of what remove_nots must return (its own comment: drop the clauses that are
                        // empty, then drop the Not<> members of the clauses that remain), with emptiness decided by the engine
                        fn expected(r: &beff_core::ast::runtype::Runtype, vs_: &[&NamedSchema], ctx: &mut SemTypeContext) -> Option<beff_core::ast::runtype::Runtype> {
                            use beff_core::ast::runtype::{Runtype, RuntypeKind};
                            Some(match &r.kind {
                                RuntypeKind::AllOf(vs) => {
                                    if r.to_sem_type(vs_, ctx).ok()?.is_empty(ctx).ok()? { return Some(Runtype::never()); }
                                    let mut out = vec![];
                                    for it in vs.iter() {
                                        let e = expected(it, vs_, ctx)?;
                                        if !matches!(e.kind, RuntypeKind::StNot(_)) { out.push(e); }
                                    }
                                    Runtype::all_of(out)
                                }
                                RuntypeKind::AnyOf(vs) => {
                                    let mut out = vec![];
                                    for it in vs.iter() {
                                        if it.to_sem_type(vs_, ctx).ok()?.is_empty(ctx).ok()? { continue; }
                                        out.push(expected(it, vs_, ctx)?);
                                    }
                                    Runtype::any_of(out)
                                }
                                _ => r.clone(),
                            })
                        }
                        if let Some(exp) = expected(&head.schema, &schemas, &mut ctx) {
                            if let (Ok(es), Ok(cs)) = (exp.to_sem_type(&schemas, &mut ctx), cleaned.to_sem_type(&schemas, &mut ctx)) {
                                let mut diff: Option<Val> = None;
                                for v in vals() {
                                    if matches!(v, Val::Mapping(_) | Val::List(_)) { continue; }
                                    if mem(&es, &v) != mem(&cs, &v) { diff = Some(v); break; }
                                }
                                let same_obj = {
                                    let objt = Rc::new(SemType::new_basic(SubTypeTag::Mapping.code()));
                                    match (es.intersect(&objt), cs.intersect(&objt)) { (Ok(a), Ok(b)) => a.is_same_type(&b, &mut ctx).unwrap_or(true), _ => true }
                                };
                                if diff.is_some() || !same_obj {
                                    rep.fail(format!("semantic type {} = {:?}, materialised as {:?}", descr, ty, head.schema.kind),
                                        format!("remove_nots returns {:?}", cleaned.kind),
                                        format!("{:?} (empty clauses dropped, Not<> members of the others dropped)", exp.kind));
                                    continue;
                                }
                            }
                        }
                        if has_not(&cleaned) {
                            rep.fail(format!("semantic type {} = {:?}", descr, ty), format!("after remove_nots the type still contains Not<>: {:?}", cleaned.kind), "only constructs the code generator can print".into());
                            continue;
                        }
                        match cleaned.to_sem_type(&schemas, &mut ctx) {
                            Err(e) => { rep.fail(descr.clone(), format!("cleaned type cannot be read back: Err({})", e), "a type".into()); continue; }
                            Ok(cs) => {
                                let mut lost: Option<Val> = None;
                                for v in vals() {
                                    if matches!(v, Val::Mapping(_) | Val::List(_)) { continue; }
                                    if mem(&ty, &v) && !mem(&cs, &v) { lost = Some(v); break; }
                                }
                                if let Some(v) = lost {
                                    rep.fail(format!("semantic type {} = {:?}", descr, ty),
                                        format!("after remove_nots it is {:?}, read back {:?}: the value {:?} of the computed type is no longer accepted", cleaned.kind, cs, v),
                                        "the cleaned type accepts at least the values of the computed type".into());
                                    continue;
                                }
                                let objt = Rc::new(SemType::new_basic(SubTypeTag::Mapping.code()));
                                if let (Ok(t1), Ok(t2)) = (ty.intersect(&objt), cs.intersect(&objt)) {
                                    match t1.is_subtype(&t2, &mut ctx) {
                                        Ok(true) => {}
                                        Ok(false) => { rep.fail(format!("semantic type {} = {:?}", descr, ty),
                                            format!("after remove_nots it is {:?}: its object part {:?} no longer contains the object part {:?} of the computed type", cleaned.kind, t2, t1),
                                            "the cleaned type accepts at least the values of the computed type".into()); continue; }
                                        Err(e) => { rep.fail(descr.clone(), format!("is_subtype: Err({})", e), "true".into()); continue; }
                                    }
                                }
                            }
                        }
                    }
                }
                // objects: compare the mapping parts through the engine (both sides restricted to objects)
                let obj = Rc::new(SemType::new_basic(SubTypeTag::Mapping.code()));
                if let (Ok(t1), Ok(t2)) = (ty.intersect(&obj), back.intersect(&obj)) {
                    match t1.is_same_type(&t2, &mut ctx) {
                        Ok(true) => {}
                        Ok(false) => rep.fail(format!("semantic type {} = {:?}", descr, ty),
                            format!("materialised as {:?}; read back, its object part {:?} is not the same type as the object part {:?} of the semantic type", head.schema.kind, t2, t1),
                            "a Runtype that denotes exactly the same set of values (is_same_type on the object parts)".into()),
                        Err(e) => rep.fail(descr, format!("is_same_type: Err({})", e), "true".into()),
                    }
                }
            }
        }
    }
    rep.print();
}

// C05: emptiness of an intersection of two tuple types over basic item types, against an independent
// reading: some length n is allowed by both and every position has a common basic type.
fn fam_listfold(_func: Option<&str>, only: Option<u64>) {
    let mut rep = Rep::new("listfold", "list_formula_is_empty", only);
    let basics = [SubTypeTag::String, SubTypeTag::Number, SubTypeTag::Boolean];
    // a tuple shape: prefix tags, rest tag (None = closed)
    let mut shapes: Vec<(Vec<SubTypeTag>, Option<SubTypeTag>)> = vec![];
    for len in 0..=2usize {
        let mut idx = vec![0usize; len];
        loop {
            let pre: Vec<SubTypeTag> = idx.iter().map(|i| basics[*i]).collect();
            shapes.push((pre.clone(), None));
            for r in basics {
                shapes.push((pre.clone(), Some(r)));
            }
            let mut k = 0;
            loop {
                if k == len { break; }
                idx[k] += 1;
                if idx[k] < basics.len() { break; }
                idx[k] = 0;
                k += 1;
            }
            if k == len { break; }
        }
    }
    let item = |s: &(Vec<SubTypeTag>, Option<SubTypeTag>), i: usize| -> Option<SubTypeTag> { if i < s.0.len() { Some(s.0[i]) } else { s.1 } };
    let allows_len = |s: &(Vec<SubTypeTag>, Option<SubTypeTag>), n: usize| -> bool { n == s.0.len() || (n > s.0.len() && s.1.is_some()) };
    let spec_nonempty = |a: &(Vec<SubTypeTag>, Option<SubTypeTag>), b: &(Vec<SubTypeTag>, Option<SubTypeTag>)| -> bool {
        (0..=4usize).any(|n| allows_len(a, n) && allows_len(b, n) && (0..n).all(|i| item(a, i).is_some() && item(a, i) == item(b, i)))
    };
    let mk = |ctx: &mut SemTypeContext, s: &(Vec<SubTypeTag>, Option<SubTypeTag>)| -> Rc<SemType> {
        let pre: Vec<Rc<SemType>> = s.0.iter().map(|t| Rc::new(SemType::new_basic(t.code()))).collect();
        let rest = s.1.map(|t| Rc::new(SemType::new_basic(t.code())));
        Rc::new(ctx.tuple(pre, rest))
    };
    for a in &shapes {
        for b in &shapes {
            for order in 0..2 {
                if !rep.want() {
                    continue;
                }
                let mut ctx = SemTypeContext::new();
                // the order in which the two atoms are defined decides which one is folded first
                let (ta, tb) = if order == 0 { let x = mk(&mut ctx, a); let y = mk(&mut ctx, b); (x, y) } else { let y = mk(&mut ctx, b); let x = mk(&mut ctx, a); (x, y) };
                let i = match ta.intersect(&tb) { Ok(i) => i, Err(e) => { rep.fail(format!("{:?} & {:?}", a, b), format!("Err({})", e), "Ok".into()); continue; } };
                match i.is_empty(&mut ctx) {
                    Ok(e) => {
                        if e == spec_nonempty(a, b) {
                            rep.fail(format!("tuple (prefix, rest) {:?} & {:?}, second defined first: {}", a, b, order == 1), format!("is_empty = {}", e), format!("is_empty = {}", !spec_nonempty(a, b)));
                        }
                    }
                    Err(e) => rep.fail(format!("{:?} & {:?}", a, b), format!("Err({})", e), "Ok".into()),
                }
            }
        }
    }
    rep.print();
}

// C05, bounded stand-in for the ASSUMED list decider (list_is_empty / list_inhabited): subtyping between a
// tuple shape and a union of tuple shapes over basic item types, against brute force over all lists of
// length <= 4 whose elements are one of three basic values.
fn fam_listneg(_func: Option<&str>, only: Option<u64>) {
    let mut rep = Rep::new("listneg", "list_is_empty", only);
    let basics = [SubTypeTag::String, SubTypeTag::Number, SubTypeTag::Boolean];
    type Shape = (Vec<SubTypeTag>, Option<SubTypeTag>);
    let mut shapes: Vec<Shape> = vec![];
    for len in 0..=2usize {
        let mut idx = vec![0usize; len];
        loop {
            let pre: Vec<SubTypeTag> = idx.iter().map(|i| basics[*i]).collect();
            shapes.push((pre.clone(), None));
            for r in [SubTypeTag::String, SubTypeTag::Number] {
                shapes.push((pre.clone(), Some(r)));
            }
            let mut k = 0;
            loop {
                if k == len { break; }
                idx[k] += 1;
                if idx[k] < 2 { break; }   // prefixes over {string, number} only, to keep the product small
                idx[k] = 0;
                k += 1;
            }
            if k == len { break; }
        }
    }
    let in_shape = |s: &Shape, l: &[SubTypeTag]| -> bool {
        if l.len() < s.0.len() { return false; }
        if l.len() > s.0.len() && s.1.is_none() { return false; }
        l.iter().enumerate().all(|(i, v)| if i < s.0.len() { *v == s.0[i] } else { Some(*v) == s.1 })
    };
    // all lists of length <= 4 over the three basic values
    let mut lists: Vec<Vec<SubTypeTag>> = vec![vec![]];
    let mut frontier: Vec<Vec<SubTypeTag>> = vec![vec![]];
    for _ in 0..4 {
        let mut next = vec![];
        for l in &frontier {
            for b in basics {
                let mut l2 = l.clone();
                l2.push(b);
                next.push(l2);
            }
        }
        lists.extend(next.iter().cloned());
        frontier = next;
    }
    let mk = |ctx: &mut SemTypeContext, s: &Shape| -> Rc<SemType> {
        let pre: Vec<Rc<SemType>> = s.0.iter().map(|t| Rc::new(SemType::new_basic(t.code()))).collect();
        let rest = s.1.map(|t| Rc::new(SemType::new_basic(t.code())));
        Rc::new(ctx.tuple(pre, rest))
    };
    for a in &shapes {
        for b in &shapes {
            for c in &shapes {
                if !rep.want() {
                    continue;
                }
                // is  a <: b | c ?
                let spec = lists.iter().all(|l| !in_shape(a, l) || in_shape(b, l) || in_shape(c, l));
                let mut ctx = SemTypeContext::new();
                let ta = mk(&mut ctx, a);
                let tb = mk(&mut ctx, b);
                let tc = mk(&mut ctx, c);
                let u = match tb.union(&tc) { Ok(u) => u, Err(_) => continue };
                match ta.is_subtype(&u, &mut ctx) {
                    Ok(r) => {
                        if r != spec {
                            rep.fail(format!("tuple shapes (prefix, rest): {:?} <: {:?} | {:?}", a, b, c), format!("is_subtype = {}", r), format!("{} (brute force over all lists of length <= 4)", spec));
                        }
                    }
                    Err(e) => rep.fail(format!("{:?} <: {:?} | {:?}", a, b, c), format!("Err({})", e), "Ok".into()),
                }
            }
        }
    }
    rep.print();
}

// C05, bounded stand-in for the ASSUMED list decider, larger universe than `listneg`: prefixes up to length 3 over
// {string, number}, optional rest in {string, number}; `a <: b | c` for all 45^3 triples and `a <: b | c | d` with the
// negatives drawn from every fourth shape; brute force over all lists of length <= 5 over three basic values (a
// counterexample, if any, exists at length <= longest prefix + 1 = 4).
fn fam_listneg2(_func: Option<&str>, only: Option<u64>) {
    let mut rep = Rep::new("listneg2", "list_is_empty", only);
    let basics = [SubTypeTag::String, SubTypeTag::Number, SubTypeTag::Boolean];
    // an item type is a set of basic tags (bit i = basics[i]): string, number, string | number
    let items: [u8; 3] = [1, 2, 3];
    type Shape = (Vec<u8>, Option<u8>);
    let mut shapes: Vec<Shape> = vec![];
    // part 1: prefixes up to length 3 over {string, number}, rest in {none, string, number}
    for len in 0..=3usize {
        for code in 0..(1usize << len) {
            let pre: Vec<u8> = (0..len).map(|i| items[(code >> i) & 1]).collect();
            shapes.push((pre.clone(), None));
            for r in [1u8, 2u8] { shapes.push((pre.clone(), Some(r))); }
        }
    }
    let n1 = shapes.len();
    // part 2: prefixes up to length 2 over {string, number, string | number}, rest also string | number
    let mut shapes2: Vec<Shape> = vec![];
    for len in 0..=2usize {
        let mut idx = vec![0usize; len];
        loop {
            let pre: Vec<u8> = idx.iter().map(|i| items[*i]).collect();
            shapes2.push((pre.clone(), None));
            for r in items { shapes2.push((pre.clone(), Some(r))); }
            let mut k = 0;
            loop { if k == len { break; } idx[k] += 1; if idx[k] < 3 { break; } idx[k] = 0; k += 1; }
            if k == len { break; }
        }
    }
    let in_shape = |s: &Shape, l: &[usize]| -> bool {
        if l.len() < s.0.len() { return false; }
        if l.len() > s.0.len() && s.1.is_none() { return false; }
        l.iter().enumerate().all(|(i, v)| { let m = if i < s.0.len() { s.0[i] } else { s.1.unwrap() }; (m >> *v) & 1 == 1 })
    };
    let mut lists: Vec<Vec<usize>> = vec![vec![]];
    let mut frontier: Vec<Vec<usize>> = vec![vec![]];
    for _ in 0..5 {
        let mut next = vec![];
        for l in &frontier { for b in 0..3usize { let mut l2 = l.clone(); l2.push(b); next.push(l2); } }
        lists.extend(next.iter().cloned());
        frontier = next;
    }
    let code_of_mask = |m: u8| -> u32 { (0..3).filter(|i| (m >> i) & 1 == 1).map(|i| basics[i].code()).fold(0, |a, c| a | c) };
    let mk = |ctx: &mut SemTypeContext, s: &Shape| -> Rc<SemType> {
        let pre: Vec<Rc<SemType>> = s.0.iter().map(|t| Rc::new(SemType::new_basic(code_of_mask(*t)))).collect();
        let rest = s.1.map(|t| Rc::new(SemType::new_basic(code_of_mask(t))));
        Rc::new(ctx.tuple(pre, rest))
    };
    let mut ask = |rep: &mut Rep, shapes: &Vec<Shape>, member: &Vec<Vec<bool>>, a: usize, negs: &[usize]| {
        if !rep.want() { return; }
        let spec = (0..lists.len()).all(|k| !member[a][k] || negs.iter().any(|b| member[*b][k]));
        let mut ctx = SemTypeContext::new();
        // the negatives are converted first, then the positive (atom order matters to the decider)
        let mut u: Option<Rc<SemType>> = None;
        for b in negs {
            let tb = mk(&mut ctx, &shapes[*b]);
            u = Some(match u { None => tb, Some(x) => match x.union(&tb) { Ok(y) => y, Err(_) => return } });
        }
        let ta = mk(&mut ctx, &shapes[a]);
        let descr = format!("tuple shapes (prefix, rest; item = set of {{string=1, number=2}}): {:?} <: {}", shapes[a], negs.iter().map(|b| format!("{:?}", shapes[*b])).collect::<Vec<_>>().join(" | "));
        match ta.is_subtype(&u.unwrap(), &mut ctx) {
            Ok(r) => if r != spec { rep.fail(descr, format!("is_subtype = {}", r), format!("{} (brute force over all lists of length <= 5)", spec)); },
            Err(e) => rep.fail(descr, format!("Err({})", e), "Ok".into()),
        }
    };
    let member1: Vec<Vec<bool>> = shapes.iter().map(|s| lists.iter().map(|l| in_shape(s, l)).collect()).collect();
    let thin: Vec<usize> = (0..n1).filter(|i| i % 4 == 1).collect();
    for a in 0..n1 { for b in 0..n1 { for c in 0..n1 { ask(&mut rep, &shapes, &member1, a, &[b, c]); } } }
    for a in 0..n1 { for b in &thin { for c in &thin { for d in &thin { ask(&mut rep, &shapes, &member1, a, &[*b, *c, *d]); } } } }
    let member2: Vec<Vec<bool>> = shapes2.iter().map(|s| lists.iter().map(|l| in_shape(s, l)).collect()).collect();
    let n2 = shapes2.len();
    for a in 0..n2 { for b in 0..n2 { for c in 0..n2 { ask(&mut rep, &shapes2, &member2, a, &[b, c]); } } }
    // three negatives, in every order, drawn from every third shape of part 2; positives with a rest only
    let thin2: Vec<usize> = (0..n2).filter(|i| i % 3 == 1).collect();
    for a in 0..n2 {
        if shapes2[a].1.is_none() { continue; }
        for b in &thin2 { for c in &thin2 { for d in &thin2 { ask(&mut rep, &shapes2, &member2, a, &[*b, *c, *d]); } } }
    }
    rep.print();
}

// C05, bounded stand-in for the ASSUMED object decider (dnf_mapping_is_empty / check_mapping_empty):
// `A <: B | C` for small object types, against brute force over all objects with keys a, b, c whose
// values are absent, a string or a number. Reading (mapping.rs, property C05): every EXACT value of A
// (declared properties only; an index signature admits any further key) is a value of B or C read
// STRUCTURALLY (undeclared properties are unconstrained unless an index signature constrains them).
fn fam_mapneg(_func: Option<&str>, only: Option<u64>) {
    let mut rep = Rep::new("mapneg", "dnf_mapping_is_empty", only);
    #[derive(Clone, Copy, Debug, PartialEq)]
    enum F { Absent, Req(SubTypeTag), Opt(SubTypeTag) }
    #[derive(Clone, Debug)]
    struct O { a: F, b: F, idx: Option<SubTypeTag>, fin: bool }   // fin: the index signature ranges over the finite key set {"a", "c"} instead of string
    let tags = [SubTypeTag::String, SubTypeTag::Number];
    let mut fields = vec![F::Absent];
    for t in tags { fields.push(F::Req(t)); fields.push(F::Opt(t)); }
    let mut objs: Vec<O> = vec![];
    for a in &fields { for b in &fields { for idx in [None, Some(SubTypeTag::String), Some(SubTypeTag::Number)] { objs.push(O { a: *a, b: *b, idx, fin: false }); if idx.is_some() && *a == F::Absent { objs.push(O { a: *a, b: *b, idx, fin: true }); } } } }
    // values: each of a, b, c is absent (None) or has a string / number value
    let vopts: [Option<SubTypeTag>; 3] = [None, Some(SubTypeTag::String), Some(SubTypeTag::Number)];
    let mut values: Vec<[Option<SubTypeTag>; 3]> = vec![];
    for x in vopts { for y in vopts { for z in vopts { values.push([x, y, z]); } } }
    // covered: whether key number k (0 = a, 1 = b, 2 = c) is in the index signature's key set
    let field_ok = |f: F, v: Option<SubTypeTag>, idx: Option<SubTypeTag>, fin: bool, k: usize, exact: bool| -> bool {
        match f {
            F::Req(t) => v == Some(t),
            F::Opt(t) => v.is_none() || v == Some(t),
            F::Absent => match idx {
                // a finite key set makes its keys required (Record<"a" | "c", T>), `string` makes every key optional
                Some(t) if fin && (k == 0 || k == 2) => v == Some(t),
                Some(t) if !fin => v.is_none() || v == Some(t),
                _ => if exact { v.is_none() } else { true },
            },
        }
    };
    let is_val = |o: &O, v: &[Option<SubTypeTag>; 3], exact: bool| -> bool {
        field_ok(o.a, v[0], o.idx, o.fin, 0, exact) && field_ok(o.b, v[1], o.idx, o.fin, 1, exact) && field_ok(F::Absent, v[2], o.idx, o.fin, 2, exact)
    };
    let mk = |ctx: &mut SemTypeContext, o: &O| -> Option<Rc<SemType>> {
        let mut vs = BTreeMap::new();
        for (k, f) in [("a", o.a), ("b", o.b)] {
            match f {
                F::Absent => {}
                F::Req(t) => { vs.insert(k.to_string(), Rc::new(SemType::new_basic(t.code()))); }
                F::Opt(t) => { vs.insert(k.to_string(), SemTypeContext::make_optional(Rc::new(SemType::new_basic(t.code()))).ok()?); }
            }
        }
        let key = if o.fin {
            Rc::new(SemType::new_complex(0, vec![Rc::new(ProperSubtype::String { allowed: true, values: vec![strc("a"), strc("c")] })]))
        } else {
            Rc::new(SemTypeContext::string())
        };
        let idx = o.idx.map(|t| beff_core::subtyping::bdd::IndexedPropertiesAtomic { key: key.clone(), value: Rc::new(SemType::new_basic(t.code())) });
        Some(Rc::new(ctx.mapping_definition(vs, idx)))
    };
    // TypeScript only accepts an index signature when every declared property is compatible with it
    let valid = |o: &O| -> bool {
        match o.idx {
            None => true,
            Some(t) => [o.a, o.b].iter().all(|f| match f { F::Absent => true, F::Req(x) | F::Opt(x) => *x == t }),
        }
    };
    let objs: Vec<O> = objs.into_iter().filter(|o| valid(o)).collect();
    // thin the product: all A, and (B, C) pairs from a stride
    let mut pairs: Vec<(usize, usize)> = vec![];
    for i in 0..objs.len() { for j in (i..objs.len()).step_by(2) { pairs.push((i, j)); } }
    for a in &objs {
        for (bi, ci) in &pairs {
            if !rep.want() { continue; }
            let (b, c) = (&objs[*bi], &objs[*ci]);
            let spec = values.iter().all(|v| !is_val(a, v, true) || is_val(b, v, false) || is_val(c, v, false));
            let mut ctx = SemTypeContext::new();
            let (Some(ta), Some(tb), Some(tc)) = (mk(&mut ctx, a), mk(&mut ctx, b), mk(&mut ctx, c)) else { continue };
            let u = match tb.union(&tc) { Ok(u) => u, Err(_) => continue };
            match ta.is_subtype(&u, &mut ctx) {
                Ok(r) => if r != spec {
                    rep.fail(format!("object types (a, b, index signature over string): {:?} <: {:?} | {:?}", a, b, c), format!("is_subtype = {}", r), format!("{} (brute force over the 27 objects with keys a, b, c)", spec));
                },
                Err(_e) => {}   // "not supported" answers are diagnostics, not wrong answers
            }
        }
    }
    rep.print();
}

// C05, bounded stand-in for the ASSUMED object decider on INDEX SIGNATURES with non-trivial key domains (the `mapneg`
// universe has `string` and finite key sets only): `S(v) <: B` for exact objects v over the keys "a", "xa", "1" with
// values 1 or "s", against index-signature types {[k: K]: T} and unions/intersections of two of them, K in
// {string, number, `x${string}`, "a" | "xa"}, T in {string, number}. Oracle (structural reading of the right side):
// v is a member iff every property whose key lies in K has a value in T; key membership: every key is a string,
// "1" is also a number key, `x${string}` matches the keys that start with x. Exact in both directions.
fn fam_idxsig(_func: Option<&str>, only: Option<u64>) {
    use beff_core::ast::runtype::{Runtype, RuntypeConst, TplLitType, TplLitTypeItem};
    let mut rep = Rep::new("idxsig", "dnf_mapping_is_empty", only);
    #[derive(Clone, Copy, Debug, PartialEq)]
    enum K { Str, Num, XPrefix, AorXa }
    #[derive(Clone, Copy, Debug, PartialEq)]
    enum T { Str, Num }
    let keys = ["a", "xa", "1"];
    let key_in = |k: &str, d: K| match d { K::Str => true, K::Num => k == "1", K::XPrefix => k.starts_with('x'), K::AorXa => k == "a" || k == "xa" };
    let mk_key = |d: K| -> Runtype { match d {
        K::Str => Runtype::string(), K::Num => Runtype::number(),
        K::XPrefix => Runtype::tpl_lit_type(TplLitType(vec![TplLitTypeItem::StringConst("x".into()), TplLitTypeItem::String])),
        K::AorXa => Runtype::any_of(vec![Runtype::single_string_const("a"), Runtype::single_string_const("xa")]),
    } };
    let mk_t = |t: T| -> Runtype { match t { T::Str => Runtype::string(), T::Num => Runtype::number() } };
    // values: objects with up to two of the three keys, each 1 or "s"
    let mut objs: Vec<Vec<(&'static str, bool)>> = vec![vec![]];   // (key, is_number)
    for (i, k) in keys.iter().enumerate() {
        for n in [true, false] { objs.push(vec![(*k, n)]); }
        for k2 in keys.iter().skip(i + 1) { for n in [true, false] { for n2 in [true, false] { objs.push(vec![(*k, n), (*k2, n2)]); } } }
    }
    // number-keyed signatures are left out: the engine never applies them to a property (keys are string literals),
    // TypeScript applies them to numeric-like keys, the run-time validator rejects every extra key under them -
    // there is no agreed reading to check against (noted in DESIGN.md, section 9)
    let sigs: Vec<(K, T)> = [K::Str, K::XPrefix].iter().flat_map(|k| [T::Str, T::Num].iter().map(move |t| (*k, *t))).collect();
    let member = |o: &Vec<(&'static str, bool)>, s: &(K, T)| o.iter().all(|(k, isnum)| !key_in(k, s.0) || (*isnum == (s.1 == T::Num)));
    let mk_sig = |s: &(K, T)| Runtype::record(mk_key(s.0), mk_t(s.1).required());
    // targets: one signature; union of two; intersection of two
    let mut targets: Vec<(String, Runtype, Box<dyn Fn(&Vec<(&'static str, bool)>) -> bool>)> = vec![];
    for s1 in &sigs {
        let a = *s1;
        targets.push((format!("{{[k: {:?}]: {:?}}}", a.0, a.1), mk_sig(&a), Box::new(move |o| member(o, &a))));
        for s2 in &sigs {
            let c = *s2;
            if a == c { continue; }
            targets.push((format!("{{[k: {:?}]: {:?}}} | {{[k: {:?}]: {:?}}}", a.0, a.1, c.0, c.1), Runtype::any_of(vec![mk_sig(&a), mk_sig(&c)]), Box::new(move |o| member(o, &a) || member(o, &c))));
            targets.push((format!("{{[k: {:?}]: {:?}}} & {{[k: {:?}]: {:?}}}", a.0, a.1, c.0, c.1), Runtype::all_of(vec![mk_sig(&a), mk_sig(&c)]), Box::new(move |o| member(o, &a) && member(o, &c))));
        }
    }
    for (descr, tb, oracle) in &targets {
        for o in &objs {
            if !rep.want() { continue; }
            let spec = oracle(o);
            let sv = Runtype::object(o.iter().map(|(k, n)| (k.to_string(), if *n { Runtype::const_(RuntypeConst::parse_int(1)).required() } else { Runtype::single_string_const("s").required() })).collect());
            let mut ctx = SemTypeContext::new();
            let (Ok(ta), Ok(tbs)) = (sv.to_sem_type(&[], &mut ctx), tb.to_sem_type(&[], &mut ctx)) else { continue };
            match ta.is_subtype(&tbs, &mut ctx) {
                Ok(r) => if r != spec { rep.fail(format!("exact object {:?} (true = the value 1, false = \"s\") against {}", o, descr), format!("is_subtype = {}", r), format!("{} (every property whose key lies in the key domain has a value of the value type)", spec)); },
                Err(_) => {}   // refused (e.g. intersection of index signatures with different key types): not an answer
            }
        }
    }
    // second part: an index signature on the LEFT as well (exact reading: it admits any further key with a value of its
    // value type): {[k: K]: T'} <: B | C with T' also string | number; brute force over the 27 objects with the keys
    // a, xa, 1 each absent / 1 / "s" (two keys outside `x${string}` and one inside: both key classes, and two
    // different keys of one class, are present)
    let mut all_objs: Vec<Vec<(&'static str, bool)>> = vec![];
    for ca in 0..3 { for cx in 0..3 { for c1 in 0..3 {
        let mut o = vec![];
        for (k, c) in [("a", ca), ("xa", cx), ("1", c1)] { if c == 1 { o.push((k, true)); } else if c == 2 { o.push((k, false)); } }
        all_objs.push(o);
    } } }
    // value types: 0 = string, 1 = number, 2 = string | number
    let lmember = |o: &Vec<(&'static str, bool)>, k: K, t: usize| o.iter().all(|(key, isnum)| key_in(key, k) && (t == 2 || (*isnum == (t == 1))));
    let strnum = || Runtype::any_of(vec![Runtype::string(), Runtype::number()]);
    for lk in [K::Str, K::XPrefix] { for lt in 0..3usize {
        let left = Runtype::record(mk_key(lk), (if lt == 0 { Runtype::string() } else if lt == 1 { Runtype::number() } else { strnum() }).required());
        for s1 in &sigs { for s2 in &sigs {
            if !rep.want() { continue; }
            let spec = all_objs.iter().all(|o| !lmember(o, lk, lt) || member(o, s1) || member(o, s2));
            let right = if s1 == s2 { mk_sig(s1) } else { Runtype::any_of(vec![mk_sig(s1), mk_sig(s2)]) };
            let mut ctx = SemTypeContext::new();
            let (Ok(ta), Ok(tb)) = (left.to_sem_type(&[], &mut ctx), right.to_sem_type(&[], &mut ctx)) else { continue };
            if let Ok(r) = ta.is_subtype(&tb, &mut ctx) {
                if r != spec {
                    rep.fail(format!("{{[k: {:?}]: {}}} <: {{[k: {:?}]: {:?}}} | {{[k: {:?}]: {:?}}}", lk, ["string", "number", "string | number"][lt], s1.0, s1.1, s2.0, s2.1),
                        format!("is_subtype = {}", r), format!("{} (brute force over the 27 objects with keys a, xa, 1)", spec));
                }
            }
        } }
    } }
    // third part: three members on the right, and a left type with a declared property next to its index signature
    for decl in [false, true] { for lt in 0..3usize {
        let vt = || if lt == 0 { Runtype::string() } else if lt == 1 { Runtype::number() } else { strnum() };
        let left = if decl {
            Runtype::new(beff_core::ast::runtype::RuntypeKind::Object {
                vs: BTreeMap::from_iter(vec![("a".to_string(), Runtype::string().required())]),
                indexed_properties: Some(Box::new(beff_core::ast::runtype::IndexedProperty { key: Runtype::string(), value: vt().required() })),
            })
        } else { Runtype::record(Runtype::string(), vt().required()) };
        let lm = |o: &Vec<(&'static str, bool)>| -> bool {
            if decl {
                // a: string declared (required); the other keys fall under the index signature
                match o.iter().find(|(k, _)| *k == "a") { Some((_, isnum)) => { if *isnum { return false; } } None => return false }
                o.iter().filter(|(k, _)| *k != "a").all(|(_, isnum)| lt == 2 || (*isnum == (lt == 1)))
            } else { lmember(o, K::Str, lt) }
        };
        for s1 in &sigs { for s2 in &sigs { for s3 in &sigs {
            if !rep.want() { continue; }
            let spec = all_objs.iter().all(|o| !lm(o) || member(o, s1) || member(o, s2) || member(o, s3));
            let right = Runtype::any_of(vec![mk_sig(s1), mk_sig(s2), mk_sig(s3)]);
            let mut ctx = SemTypeContext::new();
            let (Ok(ta), Ok(tb)) = (left.to_sem_type(&[], &mut ctx), right.to_sem_type(&[], &mut ctx)) else { continue };
            if let Ok(r) = ta.is_subtype(&tb, &mut ctx) {
                if r != spec {
                    rep.fail(format!("{}{{[k: string]: {}}} <: {{[k: {:?}]: {:?}}} | {{[k: {:?}]: {:?}}} | {{[k: {:?}]: {:?}}}", if decl { "{a: string} & " } else { "" }, ["string", "number", "string | number"][lt], s1.0, s1.1, s2.0, s2.1, s3.0, s3.1),
                        format!("is_subtype = {}", r), format!("{} (brute force over the 27 objects with keys a, xa, 1)", spec));
                }
            }
        } } }
    } }
    // fourth part: an INTERSECTION on the left of an index-signature type and an object with a declared property, in
    // both conversion orders (intersect_mapping folds the positive atoms one by one), against object types with
    // optional properties
    // (the signature's value type is string or string | number: with `number` the declared `a: string` contradicts the
    //  signature and the intersection is empty, which intersect_mapping does not see - it intersects declared
    //  properties with each other only; noted in DESIGN.md, not part of this family)
    for order in [false, true] { for lt in [0usize, 2usize] {
        let vt = || if lt == 0 { Runtype::string() } else if lt == 1 { Runtype::number() } else { strnum() };
        let rec_t = Runtype::record(Runtype::string(), vt().required());
        let obj_t = Runtype::object(vec![("a".to_string(), Runtype::string().required())]);
        let left = if order { Runtype::all_of(vec![rec_t.clone(), obj_t.clone()]) } else { Runtype::all_of(vec![obj_t.clone(), rec_t.clone()]) };
        let lm = |o: &Vec<(&'static str, bool)>| -> bool {
            // member of both: a present and a string; every key (a included) has a value of the signature's type
            match o.iter().find(|(k, _)| *k == "a") { Some((_, isnum)) => { if *isnum { return false; } } None => return false }
            o.iter().all(|(_, isnum)| lt == 2 || (*isnum == (lt == 1)))
        };
        // right sides: { a: string, xa?: T } and { xa?: T } for T in string, number
        for with_a in [false, true] { for rt in 0..2usize {
            if !rep.want() { continue; }
            let xt = if rt == 0 { Runtype::string() } else { Runtype::number() };
            let mut fields = vec![("xa".to_string(), xt.optional())];
            if with_a { fields.push(("a".to_string(), Runtype::string().required())); }
            let right = Runtype::object(fields);
            let rm = |o: &Vec<(&'static str, bool)>| -> bool {
                if with_a { match o.iter().find(|(k, _)| *k == "a") { Some((_, isnum)) => { if *isnum { return false; } } None => return false } }
                match o.iter().find(|(k, _)| *k == "xa") { Some((_, isnum)) => *isnum == (rt == 1), None => true }
            };
            let spec = all_objs.iter().all(|o| !lm(o) || rm(o));
            let mut ctx = SemTypeContext::new();
            // the order of the two conversions is the order of the atoms
            let (Ok(ta), Ok(tb)) = (left.to_sem_type(&[], &mut ctx), right.to_sem_type(&[], &mut ctx)) else { continue };
            if let Ok(r) = ta.is_subtype(&tb, &mut ctx) {
                if r != spec {
                    rep.fail(format!("({}) <: {{{}xa?: {}}}", if order { format!("{{[k: string]: {}}} & {{a: string}}", ["string", "number", "string | number"][lt]) } else { format!("{{a: string}} & {{[k: string]: {}}}", ["string", "number", "string | number"][lt]) }, if with_a { "a: string, " } else { "" }, ["string", "number"][rt]),
                        format!("is_subtype = {}", r), format!("{} (brute force over the 27 objects with keys a, xa, 1)", spec));
                }
            }
        } }
    } }
    rep.print();
}

// C07 (mechanism `list_indexed_access`), bounded: `T[i]` and `T[i | j]` for tuple types T with a prefix up to
// length 3 over {string, number, boolean} and an optional rest in {string, number}, i, j in 0..=4. Oracle: the item
// type at each index (prefix[i], or the rest type beyond the prefix, or nothing when the tuple is closed there),
// united over the indices; compared with the engine's is_same_type on these basic types.
fn fam_listidx(_func: Option<&str>, only: Option<u64>) {
    let mut rep = Rep::new("listidx", "list_indexed_access", only);
    let basics = [SubTypeTag::String, SubTypeTag::Number, SubTypeTag::Boolean];
    let mut shapes: Vec<(Vec<usize>, Option<usize>)> = vec![];
    for len in 0..=3usize {
        let mut idx = vec![0usize; len];
        loop {
            for r in [None, Some(0usize), Some(1usize)] { shapes.push((idx.clone(), r)); }
            let mut k = 0;
            loop { if k == len { break; } idx[k] += 1; if idx[k] < 3 { break; } idx[k] = 0; k += 1; }
            if k == len { break; }
        }
    }
    let mut index_sets: Vec<Vec<i64>> = vec![];
    for i in 0..=4i64 { index_sets.push(vec![i]); for j in (i + 1)..=4 { index_sets.push(vec![i, j]); } }
    for (pre, rest) in &shapes {
        for ix in &index_sets {
            if !rep.want() { continue; }
            let mut ctx = SemTypeContext::new();
            let t = Rc::new(ctx.tuple(pre.iter().map(|b| Rc::new(SemType::new_basic(basics[*b].code()))).collect(), rest.map(|b| Rc::new(SemType::new_basic(basics[b].code())))));
            let mut expect_bits = 0u32;
            for i in ix {
                let i = *i as usize;
                if i < pre.len() { expect_bits |= basics[pre[i]].code(); } else if let Some(r) = rest { expect_bits |= basics[*r].code(); }
            }
            let expected = Rc::new(SemType::new_basic(expect_bits));
            let idx_t = Rc::new(SemType::new_complex(0, vec![Rc::new(ProperSubtype::Number { allowed: true, values: ix.iter().map(|i| num(*i)).collect() })]));
            let descr = format!("tuple (prefix, rest) = ({:?}, {:?}) over [string, number, boolean], indexed by {:?}", pre, rest, ix);
            match ctx.indexed_access(t, idx_t) {
                Ok(r) => match r.is_same_type(&expected, &mut ctx) {
                    Ok(true) => {}
                    Ok(false) => rep.fail(descr, format!("indexed access = {:?}", r), format!("{:?} (the item types at the indices)", expected)),
                    Err(e) => rep.fail(descr, format!("is_same_type Err({})", e), "true".into()),
                },
                Err(_) => {}   // refused: not an answer
            }
        }
    }
    // excluded index sets (`Exclude<number, 0 | 2>`): every position not listed, and always the rest type
    for (pre, rest) in &shapes {
        for ix in &index_sets {
            if !rep.want() { continue; }
            let mut ctx = SemTypeContext::new();
            let t = Rc::new(ctx.tuple(pre.iter().map(|b| Rc::new(SemType::new_basic(basics[*b].code()))).collect(), rest.map(|b| Rc::new(SemType::new_basic(basics[b].code())))));
            let mut expect_bits = 0u32;
            for i in 0..pre.len() { if !ix.contains(&(i as i64)) { expect_bits |= basics[pre[i]].code(); } }
            if let Some(r) = rest { expect_bits |= basics[*r].code(); }
            let expected = Rc::new(SemType::new_basic(expect_bits));
            let idx_t = Rc::new(SemType::new_complex(0, vec![Rc::new(ProperSubtype::Number { allowed: false, values: ix.iter().map(|i| num(*i)).collect() })]));
            let descr = format!("tuple (prefix, rest) = ({:?}, {:?}) over [string, number, boolean], indexed by number except {:?}", pre, rest, ix);
            match ctx.indexed_access(t, idx_t) {
                Ok(r) => match r.is_same_type(&expected, &mut ctx) {
                    Ok(true) => {}
                    Ok(false) => rep.fail(descr, format!("indexed access = {:?}", r), format!("{:?} (the item types at the indices not excluded, and the rest type)", expected)),
                    Err(e) => rep.fail(descr, format!("is_same_type Err({})", e), "true".into()),
                },
                Err(_) => {}
            }
        }
    }
    // unions of two tuple types (two atoms in the diagram: the walk over the diagram): (A | B)[K] = A[K] | B[K]
    let small: Vec<(Vec<usize>, Option<usize>)> = shapes.iter().filter(|(p, _)| p.len() <= 2).cloned().collect();
    for (n1, (pre1, rest1)) in small.iter().enumerate() { for (pre2, rest2) in small.iter().skip(n1 + 1) {
        for ix in index_sets.iter().filter(|ix| ix.iter().all(|i| *i <= 2)) { for allowed in [true, false] {
            if !rep.want() { continue; }
            let mut ctx = SemTypeContext::new();
            let mk = |ctx: &mut SemTypeContext, pre: &Vec<usize>, rest: &Option<usize>| Rc::new(ctx.tuple(pre.iter().map(|b| Rc::new(SemType::new_basic(basics[*b].code()))).collect(), rest.map(|b| Rc::new(SemType::new_basic(basics[b].code())))));
            let t1 = mk(&mut ctx, pre1, rest1);
            let t2 = mk(&mut ctx, pre2, rest2);
            let t = match t1.union(&t2) { Ok(t) => t, Err(_) => continue };
            let sel = |pre: &Vec<usize>, rest: &Option<usize>| -> u32 {
                let mut bits = 0u32;
                if allowed {
                    for i in ix { let i = *i as usize; if i < pre.len() { bits |= basics[pre[i]].code(); } else if let Some(r) = rest { bits |= basics[*r].code(); } }
                } else {
                    for i in 0..pre.len() { if !ix.contains(&(i as i64)) { bits |= basics[pre[i]].code(); } }
                    if let Some(r) = rest { bits |= basics[*r].code(); }
                }
                bits
            };
            let expected = Rc::new(SemType::new_basic(sel(pre1, rest1) | sel(pre2, rest2)));
            let idx_t = Rc::new(SemType::new_complex(0, vec![Rc::new(ProperSubtype::Number { allowed, values: ix.iter().map(|i| num(*i)).collect() })]));
            let descr = format!("union of tuples ({:?}, {:?}) | ({:?}, {:?}) over [string, number, boolean], indexed by {}{:?}", pre1, rest1, pre2, rest2, if allowed { "" } else { "number except " }, ix);
            match ctx.indexed_access(t, idx_t) {
                Ok(r) => match r.is_same_type(&expected, &mut ctx) {
                    Ok(true) => {}
                    Ok(false) => rep.fail(descr, format!("indexed access = {:?}", r), format!("{:?} (the union of the two member types)", expected)),
                    Err(e) => rep.fail(descr, format!("is_same_type Err({})", e), "true".into()),
                },
                Err(_) => {}
            }
        } }
    } }
    rep.print();
}

// C07 (mechanism `keyof`), bounded: keyof A, keyof (A & B), keyof (A | B) for object atoms A, B whose declared
// keys are the non-empty subsets of {a, b, c} (string values), built as diagrams (two positive atoms in one
// clause for the intersection). Oracle: the declared keys of A; their union for A & B; their intersection for A | B.
// C07, bounded stand-in for mapping_indexed_access (object property access `T[K]`, not under contract): object atoms
// with declared keys among {a: string, b: number}, optionally a string index signature, indexed by a listed key set
// over {a, b, c}, by `string`, or by `string except ...`. Expected: the union of the types of the declared keys the
// key set selects, and the signature's value type when the key set has a key that is not declared.
fn fam_mapidx(_func: Option<&str>, only: Option<u64>) {
    use beff_core::subtyping::bdd::IndexedPropertiesAtomic;
    let mut rep = Rep::new("mapidx", "mapping_indexed_access", only);
    let names = ["a", "b", "c"];
    let decl_ty = |k: &str| if k == "a" { SubTypeTag::String } else { SubTypeTag::Number };
    let key_subsets: Vec<Vec<&'static str>> = (1..8u8).map(|m| (0..3).filter(|i| (m >> i) & 1 == 1).map(|i| names[i]).collect()).collect();
    #[derive(Clone, Debug)]
    enum Key { Listed(Vec<&'static str>), All, Except(Vec<&'static str>) }
    let mut keys: Vec<Key> = vec![Key::All];
    for ks in &key_subsets { keys.push(Key::Listed(ks.clone())); keys.push(Key::Except(ks.clone())); }
    for dm in 0..4u8 {
        let declared: Vec<&'static str> = (0..2).filter(|i| (dm >> i) & 1 == 1).map(|i| names[i]).collect();
        for sig in [None, Some(SubTypeTag::Boolean), Some(SubTypeTag::String)] {
            for key in &keys {
                if !rep.want() { continue; }
                let mut ctx = SemTypeContext::new();
                let mut vs = BTreeMap::new();
                for k in &declared { vs.insert(k.to_string(), Rc::new(SemType::new_basic(decl_ty(k).code()))); }
                let idx = sig.map(|t| IndexedPropertiesAtomic { key: Rc::new(SemTypeContext::string()), value: Rc::new(SemType::new_basic(t.code())) });
                let t = Rc::new(ctx.mapping_definition(vs, idx));
                let selects = |k: &str| match key { Key::All => true, Key::Listed(l) => l.contains(&k), Key::Except(l) => !l.contains(&k) };
                let mut bits = 0u32;
                for k in &declared { if selects(k) { bits |= decl_ty(k).code(); } }
                // a selected key that is not declared: one of a, b, c, or (for `string` / `string except`) any other string
                let undeclared_selected = match key { Key::Listed(l) => l.iter().any(|k| !declared.contains(k)), _ => true };
                if undeclared_selected { if let Some(t) = sig { bits |= t.code(); } }
                let expected = Rc::new(SemType::new_basic(bits));
                let lits = |l: &Vec<&'static str>| { let mut v: Vec<StringLitOrFormat> = l.iter().map(|k| strc(k)).collect(); v.sort(); v };
                let key_t = Rc::new(match key {
                    Key::All => SemTypeContext::string(),
                    Key::Listed(l) => SemType::new_complex(0, vec![Rc::new(ProperSubtype::String { allowed: true, values: lits(l) })]),
                    Key::Except(l) => SemType::new_complex(0, vec![Rc::new(ProperSubtype::String { allowed: false, values: lits(l) })]),
                });
                let descr = format!("object with declared keys {:?} (a: string, b: number) and index signature [k: string]: {:?}, indexed by {:?}", declared, sig, key);
                match ctx.indexed_access(t, key_t) {
                    Ok(r) => match r.is_same_type(&expected, &mut ctx) {
                        Ok(true) => {}
                        Ok(false) => rep.fail(descr, format!("indexed access = {:?}", r), format!("{:?} (the types of the selected declared keys, and the signature's value type when an undeclared key is selected)", expected)),
                        Err(e) => rep.fail(descr, format!("is_same_type Err({})", e), "true".into()),
                    },
                    Err(_) => {}   // refused: not an answer
                }
            }
        }
    }
    // unions of two object types (two atoms in the diagram): (A | B)[K] = A[K] | B[K]
    let shapes2: Vec<(u8, Option<SubTypeTag>)> = (0..4u8).flat_map(|dm| [None, Some(SubTypeTag::Boolean)].into_iter().map(move |sg| (dm, sg))).collect();
    for (n1, (dm1, sig1)) in shapes2.iter().enumerate() { for (dm2, sig2) in shapes2.iter().skip(n1 + 1) {
        for key in &keys {
            if !rep.want() { continue; }
            let mut ctx = SemTypeContext::new();
            let decl_of = |dm: u8| -> Vec<&'static str> { (0..2).filter(|i| (dm >> i) & 1 == 1).map(|i| names[i]).collect() };
            let mut mk = |dm: u8, sig: Option<SubTypeTag>| {
                let mut vs = BTreeMap::new();
                for k in decl_of(dm) { vs.insert(k.to_string(), Rc::new(SemType::new_basic(decl_ty(k).code()))); }
                let idx = sig.map(|t| IndexedPropertiesAtomic { key: Rc::new(SemTypeContext::string()), value: Rc::new(SemType::new_basic(t.code())) });
                Rc::new(ctx.mapping_definition(vs, idx))
            };
            let t1 = mk(*dm1, *sig1);
            let t2 = mk(*dm2, *sig2);
            let t = match t1.union(&t2) { Ok(t) => t, Err(_) => continue };
            let sel = |dm: u8, sig: Option<SubTypeTag>| -> u32 {
                let declared = decl_of(dm);
                let selects = |k: &str| match key { Key::All => true, Key::Listed(l) => l.contains(&k), Key::Except(l) => !l.contains(&k) };
                let mut bits = 0u32;
                for k in &declared { if selects(k) { bits |= decl_ty(k).code(); } }
                let undeclared_selected = match key { Key::Listed(l) => l.iter().any(|k| !declared.contains(k)), _ => true };
                if undeclared_selected { if let Some(t) = sig { bits |= t.code(); } }
                bits
            };
            let expected = Rc::new(SemType::new_basic(sel(*dm1, *sig1) | sel(*dm2, *sig2)));
            let lits = |l: &Vec<&'static str>| { let mut v: Vec<StringLitOrFormat> = l.iter().map(|k| strc(k)).collect(); v.sort(); v };
            let key_t = Rc::new(match key {
                Key::All => SemTypeContext::string(),
                Key::Listed(l) => SemType::new_complex(0, vec![Rc::new(ProperSubtype::String { allowed: true, values: lits(l) })]),
                Key::Except(l) => SemType::new_complex(0, vec![Rc::new(ProperSubtype::String { allowed: false, values: lits(l) })]),
            });
            let descr = format!("union of objects (declared {:?}, signature {:?}) | (declared {:?}, signature {:?}), indexed by {:?}", decl_of(*dm1), sig1, decl_of(*dm2), sig2, key);
            match ctx.indexed_access(t, key_t) {
                Ok(r) => match r.is_same_type(&expected, &mut ctx) {
                    Ok(true) => {}
                    Ok(false) => rep.fail(descr, format!("indexed access = {:?}", r), format!("{:?} (the union of the two member types)", expected)),
                    Err(e) => rep.fail(descr, format!("is_same_type Err({})", e), "true".into()),
                },
                Err(_) => {}
            }
        }
    } }
    rep.print();
}

fn fam_keyof(_func: Option<&str>, only: Option<u64>) {
    let mut rep = Rep::new("keyof", "keyof", only);
    let names = ["a", "b", "c"];
    let subsets: Vec<Vec<&'static str>> = (1..8u8).map(|m| (0..3).filter(|i| (m >> i) & 1 == 1).map(|i| names[i]).collect()).collect();
    let keys_ty = |ks: &Vec<&'static str>| -> Rc<SemType> {
        if ks.is_empty() { return Rc::new(SemTypeContext::never()); }
        Rc::new(SemType::new_complex(0, vec![Rc::new(ProperSubtype::String { allowed: true, values: { let mut v: Vec<StringLitOrFormat> = ks.iter().map(|k| strc(k)).collect(); v.sort(); v } })]))
    };
    for a in &subsets { for b in &subsets { for op in 0..3 {
        if !rep.want() { continue; }
        if op == 0 && a != b { continue; }
        let mut ctx = SemTypeContext::new();
        let mk = |ctx: &mut SemTypeContext, ks: &Vec<&'static str>| {
            let mut vs = BTreeMap::new();
            for k in ks { vs.insert(k.to_string(), Rc::new(SemTypeContext::string())); }
            Rc::new(ctx.mapping_definition(vs, None))
        };
        let ta = mk(&mut ctx, a);
        let tb = mk(&mut ctx, b);
        let (descr, t, expect): (String, Rc<SemType>, Vec<&'static str>) = match op {
            0 => (format!("keyof {{{:?}}}", a), ta.clone(), a.clone()),
            1 => (format!("keyof ({{{:?}}} & {{{:?}}})", a, b), match ta.intersect(&tb) { Ok(x) => x, Err(_) => continue }, names.iter().filter(|k| a.contains(k) || b.contains(k)).cloned().collect()),
            _ => (format!("keyof ({{{:?}}} | {{{:?}}})", a, b), match ta.union(&tb) { Ok(x) => x, Err(_) => continue }, names.iter().filter(|k| a.contains(k) && b.contains(k)).cloned().collect()),
        };
        match ctx.keyof(t) {
            Ok(r) => match r.is_same_type(&keys_ty(&expect), &mut ctx) {
                Ok(true) => {}
                Ok(false) => rep.fail(descr, format!("keyof = {:?}", r), format!("the keys {:?}", expect)),
                Err(e) => rep.fail(descr, format!("is_same_type Err({})", e), "true".into()),
            },
            Err(_) => {}
        }
    } } }
    // atoms with an index signature next to declared properties: the keys are the declared ones together with the
    // signature's key type (`number`, `string`, or a literal the atom does not declare), whether or not the
    // signature covers the declared keys
    let subsets0: Vec<Vec<&'static str>> = (0..8u8).map(|m| (0..3).filter(|i| (m >> i) & 1 == 1).map(|i| names[i]).collect()).collect();
    let sig_key = |sig: u8| -> Option<Rc<SemType>> {
        match sig {
            0 => None,
            1 => Some(Rc::new(SemTypeContext::number())),
            2 => Some(Rc::new(SemTypeContext::string())),
            _ => Some(Rc::new(SemTypeContext::string_const(strc("z")))),
        }
    };
    for a in &subsets0 { for sa in 0..4u8 { for b in &subsets0 { for sb in 0..4u8 { for op in 0..3 {
        if sa == 0 && sb == 0 { continue; }
        if !rep.want() { continue; }
        if op == 0 && (a != b || sa != sb) { continue; }
        let mut ctx = SemTypeContext::new();
        let mk = |ctx: &mut SemTypeContext, ks: &Vec<&'static str>, sig: u8| {
            let mut vs = BTreeMap::new();
            for k in ks { vs.insert(k.to_string(), Rc::new(SemTypeContext::string())); }
            let ip = sig_key(sig).map(|k| beff_core::subtyping::bdd::IndexedPropertiesAtomic { key: k, value: Rc::new(SemTypeContext::boolean()) });
            Rc::new(ctx.mapping_definition(vs, ip))
        };
        let atom_keys = |ks: &Vec<&'static str>, sig: u8| -> Rc<SemType> {
            match sig_key(sig) { Some(k) => keys_ty(ks).union(&k).unwrap(), None => keys_ty(ks) }
        };
        let ta = mk(&mut ctx, a, sa);
        let tb = mk(&mut ctx, b, sb);
        let (ka, kb) = (atom_keys(a, sa), atom_keys(b, sb));
        let (descr, t, expect): (String, Rc<SemType>, Rc<SemType>) = match op {
            0 => (format!("keyof {{{:?} sig{}}}", a, sa), ta.clone(), ka.clone()),
            1 => (format!("keyof ({{{:?} sig{}}} & {{{:?} sig{}}})", a, sa, b, sb), match ta.intersect(&tb) { Ok(x) => x, Err(_) => continue }, ka.union(&kb).unwrap()),
            _ => (format!("keyof ({{{:?} sig{}}} | {{{:?} sig{}}})", a, sa, b, sb), match ta.union(&tb) { Ok(x) => x, Err(_) => continue }, ka.intersect(&kb).unwrap()),
        };
        match ctx.keyof(t) {
            Ok(r) => match r.is_same_type(&expect, &mut ctx) {
                Ok(true) => {}
                Ok(false) => rep.fail(descr, format!("keyof = {:?}", r), format!("the declared keys together with the signature's key type: {:?}", expect)),
                Err(e) => rep.fail(descr, format!("is_same_type Err({})", e), "true".into()),
            },
            Err(_) => {}
        }
    } } } } }
    // a union with a primitive member (a literal, a whole basic type, undefined): primitives have no keys in beff,
    // so the union has none
    for a in &subsets { for prim in 0..5 {
        if !rep.want() { continue; }
        let mut ctx = SemTypeContext::new();
        let mut vs = BTreeMap::new();
        for k in a { vs.insert(k.to_string(), Rc::new(SemTypeContext::string())); }
        let ta = Rc::new(ctx.mapping_definition(vs, None));
        let (pname, pt): (&str, SemType) = match prim {
            0 => ("\"x\"", SemTypeContext::string_const(strc("x"))),
            1 => ("1", SemTypeContext::number_const(num(1))),
            2 => ("undefined", SemTypeContext::undefined()),
            3 => ("number", SemTypeContext::number()),
            _ => ("true", SemTypeContext::boolean_const(true)),
        };
        let t = match ta.union(&Rc::new(pt)) { Ok(x) => x, Err(_) => continue };
        let descr = format!("keyof ({{{:?}}} | {})", a, pname);
        match ctx.keyof(t) {
            Ok(r) => match r.is_empty(&mut ctx) {
                Ok(true) => {}
                Ok(false) => rep.fail(descr, format!("keyof = {:?}", r), "never (a primitive member has no keys)".into()),
                Err(e) => rep.fail(descr, format!("is_empty Err({})", e), "true".into()),
            },
            Err(_) => {}
        }
    } }
    rep.print();
}

// C05, bounded stand-in for the ASSUMED conversion Runtype -> SemType of NAMED, possibly RECURSIVE types
// (subtyping/mod.rs: convert_to_sem_type and its *_runtype_ref_memo cuts) together with the deciders on the
// result. Questions are of the form  S(v) <: B  where S(v) is the singleton type of a finite value v (consts,
// closed tuples, objects with required properties only: the "exact value" of the property text) and B a type
// over a small set of named definitions. The oracle is membership of v in B by recursion on the value - exact
// in both directions, so every disagreement is a definite wrong answer (no completeness bound involved).
#[derive(Clone, Debug, PartialEq)]
enum RVal { Null, Bool(bool), Num(i64), Str(&'static str), List(Vec<RVal>), Obj(Vec<(&'static str, RVal)>) }

fn rv_uuid(name: &str) -> RuntypeUUID {
    RuntypeUUID {
        ty: RuntypeName::Address(beff_core::TypeAddress { file: beff_core::BffFileName::new("twin.bff".into()), name: name.into() }),
        type_arguments: vec![],
    }
}
// a small type language mirrored into Runtype
#[derive(Clone, Debug)]
enum RT { Null, Bool, Num, Str, NumC(i64), StrC(&'static str), Arr(Box<RT>), Tup(Vec<RT>, Option<Box<RT>>), Obj(Vec<(&'static str, RT, bool)>), Or(Vec<RT>), Ref(&'static str) }
fn rt_to_runtype(t: &RT) -> beff_core::ast::runtype::Runtype {
    use beff_core::ast::runtype::{Runtype, RuntypeConst};
    match t {
        RT::Null => Runtype::null(),
        RT::Bool => Runtype::boolean(),
        RT::Num => Runtype::number(),
        RT::Str => Runtype::string(),
        RT::NumC(i) => Runtype::const_(RuntypeConst::parse_int(*i)),
        RT::StrC(s) => Runtype::single_string_const(s),
        RT::Arr(i) => Runtype::array(Box::new(rt_to_runtype(i))),
        RT::Tup(p, r) => Runtype::tuple(p.iter().map(rt_to_runtype).collect(), r.as_ref().map(|x| Box::new(rt_to_runtype(x)))),
        RT::Obj(fs) => Runtype::object(fs.iter().map(|(k, t, req)| (k.to_string(), if *req { rt_to_runtype(t).required() } else { rt_to_runtype(t).optional() })).collect()),
        RT::Or(vs) => Runtype::any_of(vs.iter().map(rt_to_runtype).collect()),
        RT::Ref(n) => Runtype::ref_(rv_uuid(n)),
    }
}
fn rt_member(t: &RT, v: &RVal, defs: &[(&'static str, RT)]) -> bool {
    match t {
        RT::Null => *v == RVal::Null,
        RT::Bool => matches!(v, RVal::Bool(_)),
        RT::Num => matches!(v, RVal::Num(_)),
        RT::Str => matches!(v, RVal::Str(_)),
        RT::NumC(i) => *v == RVal::Num(*i),
        RT::StrC(s) => *v == RVal::Str(s),
        RT::Arr(i) => match v { RVal::List(xs) => xs.iter().all(|x| rt_member(i, x, defs)), _ => false },
        RT::Tup(p, r) => match v {
            RVal::List(xs) => xs.len() >= p.len() && (xs.len() == p.len() || r.is_some())
                && xs.iter().enumerate().all(|(i, x)| if i < p.len() { rt_member(&p[i], x, defs) } else { rt_member(r.as_ref().unwrap(), x, defs) }),
            _ => false,
        },
        // structural reading: declared properties constrain, others are free
        RT::Obj(fs) => match v {
            RVal::Obj(kv) => fs.iter().all(|(k, t, req)| match kv.iter().find(|(k2, _)| k2 == k) { Some((_, x)) => rt_member(t, x, defs), None => !*req }),
            _ => false,
        },
        RT::Or(vs) => vs.iter().any(|t| rt_member(t, v, defs)),
        // every Ref in the universe below is guarded by a value constructor, so this recursion follows the value
        RT::Ref(n) => rt_member(&defs.iter().find(|(k, _)| k == n).unwrap().1, v, defs),
    }
}
fn rv_singleton(v: &RVal) -> RT {
    match v {
        RVal::Null => RT::Null,
        RVal::Bool(_) => RT::Bool, // not a singleton: handled by the caller (booleans are not generated)
        RVal::Num(i) => RT::NumC(*i),
        RVal::Str(s) => RT::StrC(s),
        RVal::List(xs) => RT::Tup(xs.iter().map(rv_singleton).collect(), None),
        RVal::Obj(kv) => RT::Obj(kv.iter().map(|(k, x)| (*k, rv_singleton(x), true)).collect()),
    }
}
fn rv_values(depth: usize) -> Vec<RVal> {
    let atoms = vec![RVal::Null, RVal::Num(1), RVal::Str("a")];
    if depth == 0 { return atoms; }
    let sub = rv_values(depth - 1);
    let mut out = atoms;
    out.push(RVal::List(vec![]));
    for a in &sub {
        out.push(RVal::List(vec![a.clone()]));
        out.push(RVal::Obj(vec![("v", RVal::Num(1)), ("next", a.clone())]));
    }
    // pairs only over a thinned sub-universe (keeps the product small)
    let thin: Vec<&RVal> = sub.iter().take(14).collect();
    for a in &thin { for b in &thin { out.push(RVal::List(vec![(*a).clone(), (*b).clone()])); } }
    let thin3: Vec<&RVal> = sub.iter().take(5).collect();
    for a in &thin3 { for b in &thin3 { for c in &thin3 { out.push(RVal::List(vec![(*a).clone(), (*b).clone(), (*c).clone()])); } } }
    out.dedup();
    out
}
fn fam_refs(_func: Option<&str>, only: Option<u64>, panics_only: bool, shared: bool) {
    let mut rep = Rep::new(if shared { "refsshared" } else if panics_only { "refspanic" } else { "refs" }, "convert_to_sem_type", only);
    // shared: ONE SemTypeContext for all questions, in sequence, as in a compiler session (memo tables persist)
    let mut shared_ctx = SemTypeContext::new();
    let b = |t: RT| Box::new(t);
    let defs: Vec<(&'static str, RT)> = vec![
        // recursive tuple with itself as rest
        ("T", RT::Tup(vec![RT::Num], Some(b(RT::Ref("T"))))),
        // recursive closed tuple through a union
        ("U", RT::Or(vec![RT::Null, RT::Tup(vec![RT::Num, RT::Ref("U")], None)])),
        // recursive object (linked list)
        ("L", RT::Obj(vec![("v", RT::Num, true), ("next", RT::Or(vec![RT::Null, RT::Ref("L")]), true)])),
        // mutually recursive tuples
        ("A", RT::Tup(vec![RT::Num], Some(b(RT::Ref("B"))))),
        ("B", RT::Tup(vec![RT::Str], Some(b(RT::Ref("A"))))),
        // named non-recursive tuples, closed and open
        ("P", RT::Tup(vec![RT::Num, RT::Str], None)),
        ("Q", RT::Tup(vec![RT::Num], Some(b(RT::Str)))),
        // array of itself
        ("R", RT::Arr(b(RT::Ref("R")))),
        // tuple whose prefix mentions itself inside an array
        ("W", RT::Tup(vec![RT::Arr(b(RT::Ref("W")))], None)),
    ];
    let mut targets: Vec<RT> = vec![];
    for (n, _) in &defs {
        targets.push(RT::Ref(n));
        targets.push(RT::Arr(b(RT::Ref(n))));
        targets.push(RT::Tup(vec![RT::Ref(n)], None));
        targets.push(RT::Tup(vec![RT::Num], Some(b(RT::Ref(n)))));
        targets.push(RT::Or(vec![RT::Null, RT::Ref(n)]));
        targets.push(RT::Obj(vec![("next", RT::Ref(n), true)]));
    }
    targets.push(RT::Or(vec![RT::Ref("T"), RT::Ref("P")]));
    targets.push(RT::Or(vec![RT::Ref("A"), RT::Ref("B")]));
    targets.push(RT::Tup(vec![RT::Ref("P"), RT::Ref("Q")], None));
    let named: Vec<NamedSchema> = defs.iter().map(|(n, t)| NamedSchema { name: rv_uuid(n), schema: rt_to_runtype(t) }).collect();
    let values = rv_values(2);
    let mut skipped = 0u64;
    std::panic::set_hook(Box::new(|_| {}));
    for t in &targets {
        for v in &values {
            // shared context: earlier questions are part of the input (memo tables), so they are always evaluated;
            // `--case n` only selects which one is reported
            let wanted = rep.want();
            if !wanted && !shared { continue; }
            let spec = rt_member(t, v, &defs);
            // a panic inside the real code is a failure of this case (C04 speaks about it too); go on with the next
            let tt = t.clone();
            let vv = v.clone();
            let nr: Vec<NamedSchema> = named.clone();
            let sc = &mut shared_ctx;
            let out = std::panic::catch_unwind(std::panic::AssertUnwindSafe(move || -> Result<Option<bool>, String> {
                let nrefs: Vec<&NamedSchema> = nr.iter().collect();
                let mut fresh = SemTypeContext::new();
                let ctx: &mut SemTypeContext = if shared { sc } else { &mut fresh };
                // a refused conversion (Err) is not an answer: such targets are skipped, not counted as failures
                let tb = match rt_to_runtype(&tt).to_sem_type(&nrefs, ctx) { Ok(x) => x, Err(_) => return Ok(None) };
                let ta = match rt_to_runtype(&rv_singleton(&vv)).to_sem_type(&nrefs, ctx) { Ok(x) => x, Err(_) => return Ok(None) };
                match ta.is_subtype(&tb, ctx) { Ok(r) => Ok(Some(r)), Err(e) => Err(format!("{}", e)) }
            }));
            match out {
                Ok(Ok(None)) => { skipped += 1; }
                Ok(Ok(Some(r))) => if r != spec && !panics_only && wanted {
                    rep.fail(format!("value {:?} against type {:?} with definitions {:?}", v, t, defs),
                             format!("(singleton type of the value) is_subtype (type) = {}", r),
                             format!("{} (membership of the value in the type, by recursion on the value)", spec));
                },
                Ok(Err(e)) => if !panics_only && wanted { rep.fail(format!("value {:?} against type {:?}", v, t), format!("is_subtype Err({})", e), "Ok".into()) },
                Err(_) => if wanted { rep.fail(format!("value {:?} against type {:?} with definitions {:?}", v, t, defs), "the real code PANICS".into(), format!("{}", spec)) },
            }
        }
    }
    eprintln!("refs: {} questions skipped because the conversion was refused (Err)", skipped);
    rep.print();
}

// C05, bounded stand-in for the ASSUMED memo cut ("a diagram met again while it is being decided is empty"):
// direct emptiness queries on mutually recursive named types, several in sequence against ONE context, in every
// order. The oracle is one-sided and definite: a type reported EMPTY although a finite value (lists over null,
// nesting <= 4, length <= 2) is a member of it is a wrong answer. (An answer memoised while an outer type was still
// assumed empty would show up as exactly that in a later query.)
fn fam_memo(_func: Option<&str>, only: Option<u64>) {
    let mut rep = Rep::new("memo", "list_is_empty", only);
    let b = |t: RT| Box::new(t);
    let defsets: Vec<Vec<(&'static str, RT)>> = vec![
        // X = [ [Y] | [] ],  Y = [X]      (X is inhabited by [[]]; deciding X asks about Y while X is in progress)
        vec![("X", RT::Tup(vec![RT::Or(vec![RT::Tup(vec![RT::Ref("Y")], None), RT::Tup(vec![], None)])], None)), ("Y", RT::Tup(vec![RT::Ref("X")], None))],
        // X = [ [] | [Y] ]  (other order of the union), Y = [X]
        vec![("X", RT::Tup(vec![RT::Or(vec![RT::Tup(vec![], None), RT::Tup(vec![RT::Ref("Y")], None)])], None)), ("Y", RT::Tup(vec![RT::Ref("X")], None))],
        // X = [Y, ...null[]] , Y = [X] | ... through a rest type:  X = [ [Y] | null ], Y = [X, ...X[]]
        vec![("X", RT::Tup(vec![RT::Or(vec![RT::Tup(vec![RT::Ref("Y")], None), RT::Null])], None)), ("Y", RT::Tup(vec![RT::Ref("X")], Some(b(RT::Ref("X")))))],
        // three in a ring, only Z has a base case
        vec![("X", RT::Tup(vec![RT::Ref("Y")], None)), ("Y", RT::Tup(vec![RT::Ref("Z")], None)), ("Z", RT::Tup(vec![RT::Or(vec![RT::Tup(vec![RT::Ref("X")], None), RT::Null])], None))],
        // genuinely empty ring (no base case): every answer "empty" is right
        vec![("X", RT::Tup(vec![RT::Ref("Y")], None)), ("Y", RT::Tup(vec![RT::Ref("X")], None))],
    ];
    // values: lists over null, nesting <= 4, length <= 2
    let mut vals: Vec<RVal> = vec![RVal::Null];
    for _ in 0..4 {
        let mut next = vals.clone();
        next.push(RVal::List(vec![]));
        for a in &vals { next.push(RVal::List(vec![a.clone()])); }
        let thin: Vec<&RVal> = vals.iter().take(6).collect();
        for a in &thin { for c in &thin { next.push(RVal::List(vec![(*a).clone(), (*c).clone()])); } }
        next.dedup();
        vals = next;
        let mut uniq: Vec<RVal> = vec![];
        for v in vals.into_iter() { if !uniq.contains(&v) { uniq.push(v); } }
        vals = uniq;
    }
    for defs in &defsets {
        let named: Vec<NamedSchema> = defs.iter().map(|(n, t)| NamedSchema { name: rv_uuid(n), schema: rt_to_runtype(t) }).collect();
        let names: Vec<&'static str> = defs.iter().map(|(n, _)| *n).collect();
        // every sequence of queries of length 1..=3 over the definitions
        let mut seqs: Vec<Vec<&'static str>> = vec![];
        for a in &names { seqs.push(vec![*a]); for c in &names { seqs.push(vec![*a, *c]); for d in &names { seqs.push(vec![*a, *c, *d]); } } }
        for sq in seqs {
            if !rep.want() { continue; }
            let nrefs: Vec<&NamedSchema> = named.iter().collect();
            let mut ctx = SemTypeContext::new();
            let mut answers: Vec<(&'static str, bool)> = vec![];
            let mut refused = false;
            for q in &sq {
                let t = match rt_to_runtype(&RT::Ref(q)).to_sem_type(&nrefs, &mut ctx) { Ok(x) => x, Err(_) => { refused = true; break; } };
                match t.is_empty(&mut ctx) { Ok(r) => answers.push((*q, r)), Err(_) => { refused = true; break; } }
            }
            if refused { continue; }
            for (q, said_empty) in &answers {
                if *said_empty {
                    if let Some(w) = vals.iter().find(|v| rt_member(&RT::Ref(q), v, defs)) {
                        rep.fail(format!("definitions {:?}; emptiness queries in this order against one context: {:?}", defs, sq),
                                 format!("answers {:?}: {} is reported EMPTY", answers, q),
                                 format!("{} is not empty: {:?} is a member", q, w));
                        break;
                    }
                }
            }
        }
    }
    // second part: subtype queries between mutually recursive types that alternate between tuples and objects
    // (both memo tables are involved), two in sequence against one context. One-sided definite oracle: an answer
    // `true` although a finite value is a member of the left type and not of the right one is wrong.
    let mixed: Vec<Vec<(&'static str, RT)>> = vec![
        vec![
            ("T1", RT::Tup(vec![RT::Or(vec![RT::Ref("U1"), RT::Null]), RT::Num], None)), ("U1", RT::Obj(vec![("next", RT::Ref("T1"), true)])),
            ("T2", RT::Tup(vec![RT::Or(vec![RT::Ref("U2"), RT::Null]), RT::Str], None)), ("U2", RT::Obj(vec![("next", RT::Ref("T2"), true)])),
        ],
        vec![
            ("T1", RT::Tup(vec![RT::Num], Some(b(RT::Ref("U1"))))), ("U1", RT::Obj(vec![("next", RT::Or(vec![RT::Ref("T1"), RT::Null]), true)])),
            ("T2", RT::Tup(vec![RT::Num], Some(b(RT::Ref("U2"))))), ("U2", RT::Obj(vec![("next", RT::Or(vec![RT::Ref("T2"), RT::Str]), true)])),
        ],
    ];
    let atoms = vec![RVal::Null, RVal::Num(1), RVal::Str("a")];
    let mut mv: Vec<RVal> = atoms.clone();
    for _ in 0..2 {
        let mut next = atoms.clone();
        next.push(RVal::List(vec![]));
        for a in &mv { next.push(RVal::List(vec![a.clone()])); next.push(RVal::Obj(vec![("next", a.clone())])); }
        for a in &mv { for c in &mv { next.push(RVal::List(vec![a.clone(), c.clone()])); } }
        let mut uniq: Vec<RVal> = vec![];
        for v in next.into_iter() { if !uniq.contains(&v) { uniq.push(v); } }
        mv = uniq;
    }
    for defs in &mixed {
        let named: Vec<NamedSchema> = defs.iter().map(|(n, t)| NamedSchema { name: rv_uuid(n), schema: rt_to_runtype(t) }).collect();
        let names: Vec<&'static str> = defs.iter().map(|(n, _)| *n).collect();
        let mut pairs: Vec<(&'static str, &'static str)> = vec![];
        for a in &names { for c in &names { if a != c { pairs.push((*a, *c)); } } }
        let mut seqs: Vec<Vec<(&'static str, &'static str)>> = vec![];
        for p1 in &pairs { seqs.push(vec![*p1]); for p2 in &pairs { seqs.push(vec![*p1, *p2]); } }
        for sq in seqs {
            if !rep.want() { continue; }
            let nrefs: Vec<&NamedSchema> = named.iter().collect();
            let mut ctx = SemTypeContext::new();
            let mut answers: Vec<((&'static str, &'static str), bool)> = vec![];
            let mut refused = false;
            for (a, c) in &sq {
                let ta = match rt_to_runtype(&RT::Ref(a)).to_sem_type(&nrefs, &mut ctx) { Ok(x) => x, Err(_) => { refused = true; break; } };
                let tc = match rt_to_runtype(&RT::Ref(c)).to_sem_type(&nrefs, &mut ctx) { Ok(x) => x, Err(_) => { refused = true; break; } };
                match ta.is_subtype(&tc, &mut ctx) { Ok(r) => answers.push(((*a, *c), r)), Err(_) => { refused = true; break; } }
            }
            if refused { continue; }
            for ((a, c), said) in &answers {
                if *said {
                    if let Some(w) = mv.iter().find(|v| rt_member(&RT::Ref(a), v, defs) && !rt_member(&RT::Ref(c), v, defs)) {
                        rep.fail(format!("definitions {:?}; subtype queries in this order against one context: {:?}", defs, sq),
                                 format!("answers {:?}: {} <: {} is reported TRUE", answers, a, c),
                                 format!("{:?} is a member of {} and not of {}", w, a, c));
                        break;
                    }
                }
            }
        }
    }
    rep.print();
}

fn main() {
    let args: Vec<String> = std::env::args().collect();
    let fam = args.get(1).map(|s| s.as_str()).unwrap_or("all");
    let mut func: Option<String> = None;
    let mut only: Option<u64> = None;
    let mut i = 2;
    while i < args.len() {
        match args[i].as_str() {
            "--fn" => {
                func = args.get(i + 1).cloned();
                i += 2;
            }
            "--case" => {
                only = args.get(i + 1).and_then(|s| s.parse().ok());
                i += 2;
            }
            _ => i += 1,
        }
    }
    let f = func.as_deref();
    // a panic inside the real code is itself a finding: report it as a failure of the case
    let res = std::panic::catch_unwind(|| match fam {
        "bdd" => fam_bdd(f, only),
        "dnf" => fam_dnf(f, only),
        "proper" => fam_proper(f, only),
        "semtype" => fam_semtype(f, only),
        "schema" => { fam_schema(f, only); if only.is_none() { fam_schema2(f, None); } }
        "schema2" => fam_schema2(f, only),
        "listfold" => fam_listfold(f, only),
        "listneg" => fam_listneg(f, only),
        "mapneg" => fam_mapneg(f, only),
        "listneg2" => fam_listneg2(f, only),
        "idxsig" => fam_idxsig(f, only),
        "listidx" => fam_listidx(f, only),
        "keyof" => fam_keyof(f, only),
        "mapidx" => fam_mapidx(f, only),
        "refs" => fam_refs(f, only, false, false),
        "refspanic" => fam_refs(f, only, true, false),
        "refsshared" => fam_refs(f, only, false, true),
        "memo" => fam_memo(f, only),
        _ => {
            fam_bdd(f, only);
            fam_dnf(f, only);
            fam_proper(f, only);
            fam_semtype(f, only);
        }
    });
    if res.is_err() {
        println!("{{\"family\":\"{}\",\"fn\":\"{}\",\"panic\":true}}", fam, f.unwrap_or("*"));
        std::process::exit(3);
    }
}
